#!/usr/bin/env python3
"""Regenerates /verif/known_findings.json. 'fixed' entries are documentation (they match nothing);
'open' entries suppress a violation only when property and witness predicate match."""
import json, subprocess
def sha(prefix):
    out = subprocess.run(["git", "-C", "/repo", "log", "--format=%h %s"], capture_output=True, text=True).stdout
    for l in out.splitlines():
        if l.split(" ", 1)[1].startswith(prefix):
            return l.split()[0]
    raise SystemExit("no commit: " + prefix)

FIXED = [
 ("C06", "fix: MutateRows stored", "MutateRows entry [SetCell f1:q, SetCell nofam:q] reports a non-OK status but the first SetCell is stored (also C01)"),
 ("C01", "fix: DeleteFromColumn validated", "DeleteFromColumn with an inverted/invalid time range is accepted when the row lacks the column"),
 ("C01", "fix: DeleteFromFamily accepted", "MutateRow {DeleteFromFamily(nofam)} on an unknown family is accepted"),
 ("C13", "fix: ReadModifyWriteRow incremented", "increment on an existing cell whose value is empty is treated as 0 instead of failing"),
 ("C14", "fix: ModifyColumnFamilies applied", "ModifyColumnFamilies [create g, create f1(existing)] returns AlreadyExists but g stays created"),
 ("C14", "fix: a deleted table reappeared", "disk engine: DeleteTable, restart, CreateTable of the same name -> AlreadyExists (table and rows reappear; also C08)"),
 ("C05", "fix: negative cell counts", "cells_per_row_limit/offset or cells_per_column_limit < 0 panics with slice bounds out of range (also C20)"),
 ("C05", "fix: cells_per_row_offset_filter never", "cells_per_row_offset 1 on a row with two one-cell columns returns nothing"),
 ("C05", "fix: condition filter took", "condition{predicate: cells_per_row_offset 2 on a 2-cell row} evaluates the true branch"),
 ("C16", "fix: a GC pass reverted", "leveldb engines: a write acknowledged while a GC pass had released the table lock (after every 100th row) is overwritten by the pass's stale snapshot row"),
 ("C08", "fix: a kill during table clear/create", "kill inside DropRowRange(all)/CreateTable after the new MANIFEST file is created but before CURRENT is set (or in the middle of the directory removal): the next start panics with 'file missing'"),
 ("C10", "fix: a metadata PATCH could overwrite", "PATCH body naming md5Hash/generation replaces the stored md5Hash (both stores) and generation (memory store)"),
 ("C10", "fix: memory store shared one", "memory store: after Copy a -> b, PATCH of b's metadata also changes a's metadata (shared map; also C15)"),
 ("C15", "fix: rewrite truncated destination", "copy to destination x/o/y writes object x; (also C20: a rewrite path without /o/ panics)"),
 ("C11", "fix: listing with a delimiter repeated", "names a d/1 d/2 d/3 e g/x h, delimiter /, maxResults 2 -> pages [a d/] [d/] and nothing after; a page holding only prefixes ends the listing"),
 ("C11", "fix: file store listed", "file store: names a.txt and a/b are listed as [a/b a.txt]; with prefix=a, delimiter=/ the items a.txt and a0 are skipped (directory a/ walked before a.txt; also C09)"),
 ("C07", "fix: upload and patch responses were read", "two concurrent unconditional uploads of one object both report the same generation in their responses; upload racing a delete dereferences nil metadata (server panic, also C20)"),
 ("C07", "fix: object reads could observe", "file store: metadata GET during an upload returns the new file's own mtime as generation with metageneration 0 (content written, sidecar not yet)"),
 ("C03", "fix: rows without cells were kept", "ReadModifyWriteRow without rules, or dropping a row's only family, leaves a key without cells that SampleRowKeys reports"),
 ("C03", "fix: rows_limit counted rows", "rows_limit=1 with a cells_per_row_offset filter that empties the first row returns nothing"),
 ("C16", "fix: garbage collection kept rows", "a GC pass that removes the last cell of a row leaves the key behind (reported by SampleRowKeys)"),
 ("C20", "fix: compose without a destination", "POST .../compose with a body lacking \"destination\" -> nil dereference"),
 ("C20", "fix: DELETE on the bucket collection", "file store: DELETE /storage/v1/b removes the store's root directory (every bucket)"),
 ("C20", "fix: rows with an empty key", "MutateRow with an empty row key is stored; ReadRows then emits a chunk without a row key"),
 ("C20", "fix: DropRowRange(all) on a table deleted", "disk engine: DropRowRange(all) on a table that is concurrently deleted and re-created: the deleted table's object clears/re-opens the directory the new table owns; the second open fails on the leveldb file lock and the handler panics (recorded as an open finding until repaired)"),
 ("C08", "fix: a ModifyColumnFamilies racing DeleteTable", "disk engine: ModifyColumnFamilies that looked the table up before a concurrent DeleteTable (+ CreateTable of the same name) persists the deleted table's definition: after a restart the re-created table has the old families, or the deleted table is back (replays in findings/)"),
 ("C20", "fix: GetTable and ModifyColumnFamilies handed out", "data race: the *Table returned by GetTable/ModifyColumnFamilies is the live definition, serialized after the lock is released while a concurrent ModifyColumnFamilies edits its families map (race supplement: ModifyColumnFamilies <-> proto.Marshal of the response)"),
 ("C20", "fix: GenerateConsistencyToken and CheckConsistency", "data race: GenerateConsistencyToken/CheckConsistency read server.tables without the server lock while CreateTable/DeleteTable write it (race supplement: CreateTable <-> GenerateConsistencyToken)"),
 ("C20", "fix: requests for one resumable upload id", "data race: two PUTs naming one resumable upload id truncate and append the shared buffer concurrently (race supplement: handleGcsNewObjectResume <-> handleGcsNewObjectResume)"),
 ("C07", "fix: copy and compose read their source", "file store: a copy of an object that is being written at that moment (content file there, sidecar not yet) succeeds and stores the new bytes with made-up metadata; found by copies OF the contended object in the C07 workload (replay in findings/)"),
 ("C14", "fix: dropping a column family left", "btree engine: bulk load of b000.. (every third row holding f1 and f2), ModifyColumnFamilies drop f1 -> rows after the first rewritten one in a full tree node keep their f1 cells and reads return them (ModifyColumnFamilies rewrote rows inside the iteration; a replacement splits a full node and truncates the node being walked; also C17: SampleRowKeys differs between engines; replays in findings/)"),
 ("C16", "fix: a garbage-collection pass skipped", "btree engine: 31 or more rows inserted once in key order, one forced pass -> condemned cells stay in the rows the iteration skipped (same mechanism as the family drop; replay in findings/)"),
 ("C20", "fix: a scan crashed the server when the table was cleared", "leveldb engines: a table holding more than the 4 MiB write buffer (100 rows x 25 cells x 3 KiB), a multi-message ReadRows, DropRowRange(delete all) between two of its messages -> handler panic 'leveldb/table: reader released' (also C18: the scan must end with OK); first seen by a wave-5 sub-agent on the unmodified code, reproduced, then found by the C20 concurrent mix once it got tables larger than the write buffer (replay in findings/)"),
 ("C07", "fix: a listing could show an object that was being written", "file store: a listing (prefix = the object name) during an upload of that object returns the item with the content file's transient modification time as generation, metageneration 0 and no metadata - a version nobody was ever given; found once listings were added to the C07 workload as metadata reads (replay in findings/)"),
 ("C20", "fix: a GC rule with a negative", "CreateTable/ModifyColumnFamilies accept a GC rule with max_num_versions = -3; the next GC pass over a populated column panics (slice bounds out of range [:-3]) on the background goroutine"),
 ("C20", "fix: the CreateTable response shared", "data race: the CreateTable response shares the families map with the stored definition and is serialized after the handler returned, while ModifyColumnFamilies on the new table edits it (race supplement: ModifyColumnFamilies <-> proto.Marshal in CreateTable's response)"),
 ("C20", "fix: a metadata PATCH with the body", "PATCH of an object's metadata with the JSON body null -> nil dereference"),
 ("C20", "fix: downloading an object marked gzip", "GET alt=media of an object with contentEncoding=gzip whose bytes are not gzip -> nil dereference"),
 ("C02", "fix: an upload sent with the content type application/x-www-form-urlencoded", "a media (or resumable chunk) upload whose Content-Type is application/x-www-form-urlencoded answers 200 but stores an empty object - or 400 when the bytes do not parse as a query string - because Handler called ParseForm, which consumes such a body (pointed out by a sixth-wave sub-agent; reproduced after that content type was added to the upload generator)"),
 ("C15", "fix: a copy or compose involving an object whose name contains /compose", "a rewrite whose source or destination name contains /compose (e.g. arch/composed/s5, out/composer/final.bin) is answered by the compose handler: the destination is never written, an unrelated object named like the prefix before /compose is overwritten with an empty composite; a compose into such a name answers 400 (pointed out by a sixth-wave sub-agent; reproduced after such names were added to the C15 universe)"),
 ("C15", "fix: the memory store shared sub-objects", "memory store: after Copy s1 -> dst.bin, a PATCH of s1 naming acl/owner also changes dst.bin's acl and owner (the copy and GetMeta results shared the pointer-typed members of the resource; also C07/C10: a PATCH answered 400 could already have altered the stored object through them) (pointed out by two sixth-wave sub-agents; reproduced by the new oracle 'a request changes no object it does not name', complete resources compared, after acl/owner patches were added to C15)"),
 ("C16", "fix: a garbage-collection pass kept applying the GC rules", "a pass over more than 100 rows read the families' GC rules once at its start: ModifyColumnFamilies(update f1: max-versions 1000) acknowledged during a lock hand-over, then a row written with three old versions - the pass still removes them (the whole row under a max-age rule) when it reaches that row (lead from a sixth-wave sub-agent reading the code; reproduced by the new C16 sub-workload 'rule relaxed during a pass', run 12 of the quick tier)"),
 ("C14", "fix: disk engine: clearing or creating table t destroyed", "disk engine: tables t and t.deleted: DropRowRange(all) or CreateTable on t removes the directory t.deleted, which is the data of the other table (its rows are gone, at once or after a restart); CreateTable t.table.proto renames away and deletes the file that holds the definition of t (also C08) (pointed out by two sixth-wave sub-agents; reproduced after both ids were added to the C14 universe)"),
 ("C05", "fix: an invalid row filter or predicate was accepted", "ReadRows with a filter holding an invalid node that no stored row reaches (value_regex_filter \"(\" behind a condition whose predicate lets nothing through, any invalid filter on an empty table) ends with OK; CheckAndMutateRow with an invalid predicate on an absent row, or behind a short-circuiting parent, applies a branch (also C12) (pointed out by a sixth-wave sub-agent; the checks had tolerated it as 'lazy validation' - the statements say rejected, never ignored - and demand the rejection since the repair)"),
 ("C16", "fix: a garbage-collection pass could start on a table that a client was still scanning", "a table idle for hours, a client begins a scan that spans several response messages; a non-forced pass attempted between two messages of the scan runs and collects cells - ReadRows stamped the table's activity only when it returned (lead from a sixth-wave sub-agent reading the code; reproduced by the new C16 sub-workload 'a pass is attempted while a scan is in progress', run 2 of the quick tier)"),
 ("C20", "fix: ReadRows with an empty range such as (k, k)", "leveldb engines: ReadRows with the row range (k, k) (open start, open end) where row k is so large, or rewritten so often, that it has an engine table file to itself: the range is normalised to start k\\x00 > end k and goleveldb panics slicing its file index (slice bounds out of range) - the process dies under gRPC (also C03) (found by a seventh-wave sub-agent looking for violations in the unchanged code; reproduced after the large-table mixes gained rows of 2.5 MB and degenerate ranges around them)"),
 ("C20", "fix: a compose request with a null element", "POST .../compose with the body {\"sourceObjects\":[null]} -> nil dereference (pointed out by a sixth-wave sub-agent; reproduced after JSON null elements were added to the perturbed bodies)"),
 ("C20", "fix: an upload or patch racing the deletion", "memory store: an upload (or metadata patch) into a bucket that a concurrent DELETE of the bucket removes between the store's two look-ups -> nil dereference in memstore.Add / UpdateMeta (pointed out by a sixth-wave sub-agent; reproduced by the concurrent GCS mix after it gained a bucket that is deleted and re-created, hook 8f90ffc)"),
 ("C20", "fix: CreateTable with a table id the disk engine", "disk engine: CreateTable with a table id of 300 bytes (or one holding a NUL byte) panics in newDiskDb with the server lock held (pointed out by a sixth-wave sub-agent; reproduced after such ids were added to the perturbed admin requests)"),
 ("C17", "fix: leveldb row iteration ignored", "leveldb engines: a filter error raised on a non-last row is overwritten by the next row; read ends OK with the row missing (btree returns InvalidArgument; seen through C05)"),
]
OPEN = [
 {"status": "open", "property": "C10", "id": "generation-is-wall-clock-stalled", "witness": "generation-equal-under-stalled-clock",
  "what": "the generation is the wall clock in nanoseconds: two content writes to one name at the same clock reading (stalled / coarse clock) get equal generations"},
 {"status": "open", "property": "C10", "id": "generation-is-wall-clock-backward", "witness": "generation-after-backward-clock-step",
  "what": "the generation is the wall clock in nanoseconds: after a backward step of the clock a rewrite gets a smaller generation than the version it replaces"},
 {"status": "open", "property": "C08", "id": "droprowrange-prefix-not-atomic", "witness": "inflight-droprowrange-prefix-partial",
  "what": "DropRowRange(prefix) deletes row by row: a kill in the middle leaves it half applied after restart (some of the matching rows gone, some still there)"},
 {"status": "open", "property": "C08", "id": "family-drop-purge-not-atomic", "witness": "inflight-family-drop-partial",
  "what": "ModifyColumnFamilies(drop) purges the family row by row and persists the new schema last: a kill in the middle leaves rows purged while the family is still in the schema"},
]
entries = []
for prop, prefix, what in FIXED:
    entries.append({"status": "fixed", "property": prop, "commit": sha(prefix), "what": what})
entries += OPEN
json.dump({"version": 1, "entries": entries}, open("/verif/known_findings.json", "w"), indent=1)
print(len(entries), "entries")
