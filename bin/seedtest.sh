#!/bin/bash
# bin/seedtest.sh <mutant-dir> <tier> <ID> [ID...]
#   Sensitivity experiment on a scratch worktree (never /repo): applies <mutant-dir>/patch.diff to a
#   fresh worktree of /repo's HEAD, optionally (SEED_VERIFY=1) confirms that it builds, that the
#   repository's own suite still passes and that the demonstration named in <mutant-dir>/demo.txt
#   (lines: "<package dir relative to repo root> <file> [<file>...]" then "run <go test -run pattern>")
#   fails with the patch and passes without it, and then runs the named checks against the worktree
#   (VERIF_REPO/VERIF_OUT), printing one line per check. The worktree and its build output are removed.
set -u
export GOFLAGS=-mod=mod GOPROXY=off GOSUMDB=off GOTOOLCHAIN=local
M=$(readlink -f "$1"); TIER=$2; shift 2
V=$(cd "$(dirname "$(readlink -f "$0")")/.." && pwd)
name=$(basename $(dirname "$M"))-$(basename "$M")
WT=/tmp/seedwt-$name-$$
OUT=/tmp/seedout-$name-$$
flock /tmp/seedtest.lock git -C /repo worktree add -q --detach $WT HEAD || exit 2
cleanup() { rm -f $OUT.*.log; flock /tmp/seedtest.lock git -C /repo worktree remove --force $WT 2>/dev/null; rm -rf $OUT $V/.bin/alt-$(echo "$WT" | md5sum | cut -c1-12); }
trap cleanup EXIT
suite() { local rc=0; mkdir -p $OUT/tmp; for m in bigtable storage; do (export TMPDIR=$OUT/tmp; cd $WT/$m && go build ./... && go test -vet=off -count=1 -timeout 25m ./... > $OUT.$m.log 2>&1) || rc=1; done; return $rc; }
demo() { # copies demo files in, runs, removes them; returns go test status
  local rc=0 pkg="" pat="."
  while read -r a rest; do
    case "$a" in
      run) pat="$rest" ;;
      "") ;;
      *) pkg=$a; for f in $rest; do cp "$M/$f" "$WT/$pkg/zz_demo_$(basename $f)"; done ;;
    esac
  done < "$M/demo.txt"
  mkdir -p $OUT/tmp
  (export TMPDIR=$OUT/tmp; cd $WT/$pkg && go test -vet=off -count=1 -timeout 10m -run "$pat" . > $OUT.demo.log 2>&1) || rc=1
  rm -f $WT/$pkg/zz_demo_*
  return $rc
}
mkdir -p $OUT
if [ "${SEED_VERIFY:-0}" != 0 ]; then
  if [ -f "$M/demo.txt" ]; then
    if demo; then echo "demo without patch: pass (ok)"; else echo "demo without patch: FAIL (bad demo)"; tail -15 $OUT.demo.log; fi
  fi
fi
git -C $WT apply "$M/patch.diff" || { echo "patch does not apply"; exit 2; }
if [ "${SEED_VERIFY:-0}" = demo ] && [ -f "$M/demo.txt" ]; then
  # demonstration only (the suite was run when the change was accepted)
  (cd $WT/bigtable && go build ./... ) && (cd $WT/storage && go build ./...) || echo "build with patch: FAIL (mutant rejected)"
  if demo; then echo "demo with patch: pass (bad demo)"; else echo "demo with patch: fail (ok)"; fi
fi
if [ "${SEED_VERIFY:-0}" = 1 ]; then
  if suite; then echo "existing suite with patch: pass (ok)"; else echo "existing suite with patch: FAIL (mutant rejected)"; grep -h "^--- FAIL\|^FAIL\|cannot\|undefined" $OUT.*.log | head; fi
  if [ -f "$M/demo.txt" ]; then
    if demo; then echo "demo with patch: pass (bad demo)"; else echo "demo with patch: fail (ok)"; grep -h "^--- FAIL\|^panic\|^FAIL" $OUT.demo.log | head -5; fi
  fi
fi
for id in "$@"; do
  s=$(date +%s)
  VERIF_REPO=$WT VERIF_OUT=$OUT timeout ${SEED_TIMEOUT:-2400} $V/bin/check $id $TIER > $OUT/$id.log 2>&1
  rc=$?
  v=$(grep -m1 "^VIOLATION" $OUT/$id.log)
  cls=""
  if [ -n "$v" ]; then f=${v##*replay=}; cls=$(python3 -c "import json,sys;d=json.load(open('$f'));print(d.get('class',''),'|',(d.get('violation') or {}).get('message','')[:300].replace('\n',' '))" 2>/dev/null); fi
  echo "$name $id $TIER exit=$rc $(( $(date +%s)-s ))s $cls"
  [ $rc = 2 ] && tail -5 $OUT/$id.log
done
