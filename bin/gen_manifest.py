#!/usr/bin/env python3
"""Regenerates /verif/MANIFEST.json from the table below (kept in one place so it stays valid)."""
import json, subprocess

HOOK_COMMITS = subprocess.run(["git", "-C", "/repo", "log", "--format=%H", "--grep=^verif hooks"], capture_output=True, text=True).stdout.split()

# id -> (level, technique, text, note, design_ref)
CHECKS = {
 "C01": ("exploration",
         "deterministic simulation: seeded sequential programs over an adversarial universe, simulated server clock, restart/kill-image faults for the disk engine, refinement against a reference data model after every request",
         "Every response and the visible state after every request are compared with an executable model of the Bigtable data model, on all three engines, under a drawn clock trajectory and (disk) clean restarts and process-kill images between requests.",
         "Trusted: the reference model (btmodel.go, written from the statement), the chunk decoder, the transport stub (direct calls + wire round trip).",
         "DESIGN.md 6/C01"),
 "C05": ("exploration",
         "deterministic simulation: seeded tables and filter trees (finite leaf and depth-2 spaces visited by seeded permutation), controlled sampler, refinement against an independent filter evaluator with its own regex matcher",
         "Filtered reads are compared row by row with an independent evaluator (three-valued: cells / InvalidArgument required / InvalidArgument permitted; admissible sets for the row-sample filter). The 34 leaf cases and 867 depth-2 compositions are consumed completely by the quick tier; deeper trees are sampled.",
         "Trusted: the evaluator (btfilter.go, btregex.go). Apart from the sampler this property is a pure function of (filter, table); the simulator contributes configuration and the controlled random source.",
         "DESIGN.md 6/C05"),
 "C06": ("exploration",
         "deterministic simulation: seeded baton-passing scheduler over every lock operation and engine access, linearizability of the recorded history per row (porcupine) against the reference model",
         "2-4 simulated clients issue single-row writes and reads on 1-2 rows; every interleaving is decided by the seeded scheduler; the history is checked for per-row linearizability and failure atomicity, with sum / single-winner invariants for the classic shapes.",
         "Trusted: cooperative mutexes (same admission rules as sync.RWMutex minus writer preference), the Rows/Storage pass-through, porcupine v1.3.0, the reference model.",
         "DESIGN.md 6/C06"),
 "C13": ("exploration",
         "deterministic simulation: seeded rule lists and prior states under a simulated server clock (unaligned, jumping, stepping back), refinement against the reference model",
         "ReadModifyWriteRow responses and the rows read back are compared with the model for every request, across engines and clock trajectories including cells in the future of the clock.",
         "Trusted: the reference model of C13 (btmodel.go rmw).",
         "DESIGN.md 6/C13"),
 "C14": ("exploration",
         "deterministic simulation: seeded admin+data programs over several tables, restart/kill-image faults for the disk engine, refinement against a registry model",
         "Admin and data requests over 2 parents x 3 table ids are checked against a registry model after every request (NotFound/AlreadyExists where named, all-or-none family modifications, exact DropRowRange), on all engines, with restarts of the disk engine in between.",
         "Trusted: the registry model (btseq.go).",
         "DESIGN.md 6/C14"),
 "C19": ("exploration",
         "deterministic simulation: seeded baton-passing scheduler over the lock map's internal steps, cancellation events as faults, invariants at every step",
         "Seeded search over interleavings of 2-4 tasks x 1-3 rounds x 1-2 keys with context cancellations on the real TransientLockMap; mutual exclusion, cancel safety, progress (deadlock/livelock verdicts), bad-unlock panic and emptiness at quiescence are checked in every run. Sampling, not the exhaustive enumeration the quantifier asks for; the number of distinct interleavings is reported.",
         "Trusted: the scheduler hooks (yields between the internal steps; wait-until in front of the channel send). The Go runtime's choice between two ready select cases is not explored.",
         "DESIGN.md 6/C19"),
}

NOT_YET = {}

def main():
    props = [json.loads(l) for l in open("/verif/properties.jsonl")]
    checks, na = [], []
    for p in props:
        pid = p["id"]
        if pid in CHECKS:
            level, tech, text, note, ref = CHECKS[pid]
            checks.append({
                "property_id": pid,
                "quick_cmd": f"bin/check {pid} quick",
                "thorough_cmd": f"bin/check {pid} thorough",
                "evidence_file": f"/verif/evidence/{pid}.json",
                "replay_cmd_template": "bin/check replay {path}",
                "engine": "simcheck",
                "level_claimed": {"category": level, "text": text, "design_ref": ref},
                "level_note": note,
                "technique": tech,
            })
        else:
            na.append({"property_id": pid, "reason": NOT_YET.get(pid, "not claimed yet: the simulated check for this property is still under construction (see DESIGN.md section 6 for the planned procedure)")})
    m = {
        "version": 1,
        "setup_cmd": "bin/check build",
        "hooks": {
            "guard": "verif",
            "enable": "go build -tags verif (the harness module /verif/sim replaces the two repository modules with /repo/bigtable and /repo/storage)",
            "baseline_off_cmd": "bin/baseline.sh",
            "source_commits": HOOK_COMMITS,
            "add_only": False,
        },
        "engines": [{"name": "simcheck", "path": "/verif/sim", "serves_properties": sorted(CHECKS), "kind_free_text": "deterministic simulator with fault injection (Go): choice tapes, baton-passing scheduler, simulated clocks, crash images, reference models, shrinker, replay"}],
        "checks": checks,
        "notes": "Exit codes: 0 held / 1 VIOLATION (minimised, replayed in a fresh process) / 2 infrastructure. VERIF_SEED selects the master seed, VERIF_WORKERS the number of worker processes (default 8).",
        "not_applicable": na,
    }
    json.dump(m, open("/verif/MANIFEST.json", "w"), indent=1)
    print("checks:", len(checks), "not claimed:", len(na))

main()
