#!/usr/bin/env python3
"""Regenerates /verif/MANIFEST.json from the table below (kept in one place so it stays valid)."""
import json, subprocess

HOOK_COMMITS = subprocess.run(["git", "-C", "/repo", "log", "--format=%H", "--grep=^verif hooks"], capture_output=True, text=True).stdout.split()

# id -> (level, technique, text, note, design_ref)
CHECKS = {
 "C03": ("exploration",
         "deterministic simulation used as an enumerator: the finite RowSet space visited by seeded permutation (consumed completely by the thorough tier), random larger sets, controlled key sampler, refinement against a row-set model with the ReadRows chunk state machine",
         "ReadRows results for RowSets over an adversarial key universe (incl. tables spanning several response messages, limits and row-dropping filters) are compared with the row-set model on all engines; SampleRowKeys is checked after histories with deletes, family drops and rule-less read-modify-writes.",
         "Trusted: the row-set model and chunk decoder. No schedule is involved (that is C18).",
         "DESIGN.md 6/C03"),
 "C12": ("exploration",
         "deterministic simulation: seeded row histories and predicate trees, metamorphic oracle (predicate_matched vs. a filtered ReadRows in the same state) plus the independent filter evaluator and the data model",
         "Every CheckAndMutateRow is checked three ways: against a filtered read of the same row in the same state, against the independent evaluator, and against the data model for the selected branch with a full read-back.",
         "Trusted: the filter evaluator and data model; the metamorphic oracle is independent of both.",
         "DESIGN.md 6/C12"),
 "C17": ("exploration",
         "deterministic simulation: one pre-drawn tape executed against three servers (btree, leveldb-memory, leveldb-disk) with identical sampler draws, normalised responses compared pairwise",
         "Sequential admin+data programs including reads that fail part-way, limits, drops and re-created tables must be answered identically by the three engines.",
         "Trusted: the normalisation (status code, rows, per-entry statuses, schemas; not message texts).",
         "DESIGN.md 6/C17"),
 "C20": ("exploration",
         "deterministic simulation with fault injection: structure- and byte-level perturbed requests to every RPC/endpoint, failing stream sends, injected fail-stop store errors, and concurrent admin/data mixes under the seeded scheduler; panics, deadlock/livelock verdicts, watchdog, well-formedness of every answer, and a health probe afterwards (plus, for the data-race clause only, a race-detector run of real-goroutine mixes, which is runtime monitoring)",
         "Four sub-workloads (Bigtable single requests, Bigtable concurrent mixes, GCS single requests incl. batch sub-response equality, GCS concurrent mixes) with the oracle: no panic, a gRPC status or well-formed HTTP error, no hang, service still works, kept data intact, lock map empty. The data-race clause cannot be seen by a one-task-at-a-time simulator; it is covered by a supplement that is runtime monitoring, not simulation (the same kinds of mixes on real goroutines in a go build -race binary, 4 x 6 s quick / 8 x 90 s thorough), reported separately in the evidence.",
         "Trusted: the transport stubs (a handler panic is observed directly); for the race supplement, the Go race detector (a report is a true race, silence proves nothing).",
         "DESIGN.md 6/C20"),
 "C02": ("exploration",
         "deterministic simulation: seeded request programs with protocol-level faults (lost responses, duplicated and re-sent ranges, status queries, server restart between chunks), simulated wall clock, refinement against an object model with full-state read-back",
         "Uploads by all three protocols under the perturbations a real client and network produce are followed by downloads through the three URL forms; every response and, at a drawn frequency and after restarts, the full state (listing, metadata, media of every object) are compared with the object model on both stores.",
         "Trusted: the object model (gcsmodel.go), the resumable client (gcsresum.go), the HTTP stub (real parser and mux, recorder instead of a connection).",
         "DESIGN.md 6/C02"),
 "C04": ("exploration",
         "deterministic simulation: the finite precondition truth table visited by seeded permutation (consumed completely by the quick tier) and revisited inside random histories incl. an interleaved second request during a resumable upload; refinement with full-state diff after every failing request",
         "All 26250 combinations of the four condition parameters x object state x operation x store are executed and compared with the truth table of the statement; every non-2xx answer is followed by a read-back of every object, which must be unchanged.",
         "Trusted: evalConds (the truth table written from the statement), the object model. This property depends on no schedule; the simulator contributes enumeration, the clock and the interleaved-request case.",
         "DESIGN.md 6/C04"),
 "C07": ("exploration",
         "deterministic simulation: seeded baton-passing scheduler over every store access, lock-map step and file-store write step, context-cancel faults, linearizability of the recorded history per object (porcupine) with generations as opaque fresh tokens",
         "2-4 simulated HTTP clients race uploads, patches, deletes, composes, copies and reads on 1-2 objects; every response must be explained by one serial order per object, N writers conditioned on one generation have exactly one winner, and the lock map is empty afterwards.",
         "Trusted: the Store pass-through and lock-map hooks, porcupine v1.3.0, the object model. Listings are outside this workload.",
         "DESIGN.md 6/C07"),
 "C08": ("fault_enumeration",
         "deterministic simulation with crash injection: process-kill images at seeded scheduling points (request boundaries, engine calls, goleveldb file operations incl. torn writes, each system call of metadata persistence and clear/create, during recovery), repeated cycles, recovered state checked against the set of admissible states",
         "The disk engine is killed at a drawn (thorough tier: every one of the first 192) scheduling point of admin+data programs, restarted on the image through the real start-up path, and must serve the acknowledged state with each in-flight request wholly applied or absent; up to 3 cycles, also clean stops and kills during recovery. A further sub-workload lets 2-3 clients administer and write the same tables concurrently, stops the emulator at quiescence and requires the restarted one to serve the same state.",
         "Trusted: process-kill semantics (completed system calls survive; no page-cache loss is claimed), the consistent-image lock around goleveldb file operations, the registry model. Two recorded findings (non-atomic prefix / family drops) are listed in known_findings.json.",
         "DESIGN.md 6/C08"),
 "C09": ("fault_enumeration",
         "deterministic simulation: restart (kill between requests) after EVERY request of seeded programs on the file store with full-state comparison, planted sidecar-less files, and a differential run of one pre-drawn tape against memory and file stores",
         "Every request boundary of every generated program is a restart point; after each restart everything is read back through HTTP and compared with what was acknowledged. The same tapes run against both stores must give identical normalised response traces.",
         "Trusted: the object model and the normalisation (generation -> rank of first appearance, timestamps dropped). Kills inside a request are outside the property's wording.",
         "DESIGN.md 6/C09"),
 "C10": ("exploration",
         "deterministic simulation: seeded histories under a simulated wall clock (strictly increasing baseline; stalled and backward-stepping fault configurations counted separately), history-wide versioning laws",
         "Generation freshness/order, metageneration reset and +1, patch merge semantics and agreement of the four reporting places are checked over long back-to-back histories on both stores with restarts; clock-fault configurations expose that generations are wall-clock readings (two recorded findings).",
         "Trusted: the object model; generations are treated as opaque ordered tokens.",
         "DESIGN.md 6/C10"),
 "C11": ("exploration",
         "deterministic simulation used as an enumerator: small name universes x prefixes x delimiters x page sizes x store visited by seeded permutation (consumed completely by the quick tier), random larger sets, whole token chains compared with a listing model",
         "Every page chain is followed to the end and compared with the listing model (completeness, no duplicates, bytewise order, collapsed prefixes once, page bound, items equal to metadata GETs), plus 404/400 cases.",
         "Trusted: listModel (c11.go). Apart from the store configuration this is a pure function of (names, parameters).",
         "DESIGN.md 6/C11"),
 "C15": ("exploration",
         "deterministic simulation: seeded compose/copy programs after drawn histories, both stores with restarts, refinement against the object model with full-state read-back",
         "Compose with 1..33 sources (repeats, destination among sources, missing sources, per-source generations) and copies within/across buckets to awkward destination names are compared with the object model, sources included.",
         "Trusted: the object model.",
         "DESIGN.md 6/C15"),
 "C16": ("exploration",
         "deterministic simulation: GC policy against a GC model at exact cut-off boundaries (simulated server clock), a GC pass as a scheduled task racing add-only writers (seeded schedules), and the quiescence rule under a simulated wall clock",
         "Exact condemnation per rule tree at now-age +-1 us; no acknowledged write is lost or reverted by a concurrently running pass (GC(M) <= final <= M per row); a non-forced pass shortly after activity - or while a scan of the table is between two of its messages - collects nothing; a rule relaxed during a pass applies from then on; the real GC loop runs a round next to schema changes; no deadlock/livelock.",
         "Trusted: the GC model, cooperative mutexes, the stubbed gcloop timer (the pass is real code).",
         "DESIGN.md 6/C16"),
 "C18": ("exploration",
         "deterministic simulation: seeded schedules of one multi-message scan against 1-3 writers (one writer per row), window oracle over the recorded per-row state sequences",
         "Ascending keys without duplicates, every returned row a state that row had inside the scan window, unwritten rows exact, final status OK; leveldb engines (memory and disk); transports that serialise lazily, consumers that write before they read on, clients that go away.",
         "Trusted: the stream seam (Send yields with the table lock released), cooperative mutexes.",
         "DESIGN.md 6/C18"),
 "C01": ("exploration",
         "deterministic simulation: seeded sequential programs over an adversarial universe, simulated server clock, restart/kill-image faults for the disk engine, refinement against a reference data model after every request",
         "Every response and the visible state after every request are compared with an executable model of the Bigtable data model, on all three engines, under a drawn clock trajectory and (disk) clean restarts and process-kill images between requests.",
         "Trusted: the reference model (btmodel.go, written from the statement), the chunk decoder, the transport stub (direct calls + wire round trip).",
         "DESIGN.md 6/C01"),
 "C05": ("exploration",
         "deterministic simulation: seeded tables and filter trees (finite leaf and depth-2 spaces visited by seeded permutation), controlled sampler, refinement against an independent filter evaluator with its own regex matcher",
         "Filtered reads are compared row by row with an independent evaluator (three-valued: cells / InvalidArgument required / InvalidArgument permitted; admissible sets for the row-sample filter). The 34 leaf cases and 867 depth-2 compositions are consumed completely by the quick tier; deeper trees are sampled.",
         "Trusted: the evaluator (btfilter.go, btregex.go). Apart from the sampler this property is a pure function of (filter, table); the simulator contributes configuration and the controlled random source.",
         "DESIGN.md 6/C05"),
 "C06": ("exploration",
         "deterministic simulation: seeded baton-passing scheduler over every lock operation and engine access, linearizability of the recorded history per row (porcupine) against the reference model",
         "2-4 simulated clients issue single-row writes and reads on 1-2 rows; every interleaving is decided by the seeded scheduler; the history is checked for per-row linearizability and failure atomicity, with sum / single-winner invariants for the classic shapes.",
         "Trusted: cooperative mutexes (same admission rules as sync.RWMutex minus writer preference), the Rows/Storage pass-through, porcupine v1.3.0, the reference model.",
         "DESIGN.md 6/C06"),
 "C13": ("exploration",
         "deterministic simulation: seeded rule lists and prior states under a simulated server clock (unaligned, jumping, stepping back), refinement against the reference model",
         "ReadModifyWriteRow responses and the rows read back are compared with the model for every request, across engines and clock trajectories including cells in the future of the clock.",
         "Trusted: the reference model of C13 (btmodel.go rmw).",
         "DESIGN.md 6/C13"),
 "C14": ("exploration",
         "deterministic simulation: seeded admin+data programs over several tables, restart/kill-image faults for the disk engine, refinement against a registry model; concurrent admin/data histories on one table name under the seeded scheduler checked for linearizability (porcupine) against the registry model",
         "Admin and data requests over 2 parents x 3 table ids are checked against a registry model after every request (NotFound/AlreadyExists where named, all-or-none family modifications, exact DropRowRange), on all engines, with restarts of the disk engine in between. A quarter of the runs are concurrent histories (create/delete/get/list/family changes/writes/reads/drops on one table name) that must have a serial explanation.",
         "Trusted: the registry model (btseq.go).",
         "DESIGN.md 6/C14"),
 "C19": ("exploration",
         "deterministic simulation: seeded baton-passing scheduler over the lock map's internal steps, cancellation events as faults, invariants at every step",
         "Seeded search over interleavings of 2-4 tasks x 1-3 rounds x 1-2 keys with context cancellations on the real TransientLockMap; mutual exclusion, cancel safety, progress (deadlock/livelock verdicts), bad-unlock panic and emptiness at quiescence are checked in every run. Sampling, not the exhaustive enumeration the quantifier asks for; the number of distinct interleavings is reported. A supplement (runtime monitoring on real goroutines, reported separately) covers windows without a scheduling point and a wait of several seconds of real time; a hang that reproduces from the seed in a fresh process is a violation.",
         "Trusted: the scheduler hooks (yields between the internal steps; wait-until in front of the channel send). The Go runtime's choice between two ready select cases is not explored.",
         "DESIGN.md 6/C19"),
}

NOT_YET = {}

def main():
    props = [json.loads(l) for l in open("/verif/properties.jsonl")]
    checks, na = [], []
    for p in props:
        pid = p["id"]
        if pid in CHECKS:
            level, tech, text, note, ref = CHECKS[pid]
            checks.append({
                "property_id": pid,
                "quick_cmd": f"bin/check {pid} quick",
                "thorough_cmd": f"bin/check {pid} thorough",
                "evidence_file": f"/verif/evidence/{pid}.json",
                "replay_cmd_template": "bin/check replay {path}",
                "engine": "simcheck",
                "level_claimed": {"category": level, "text": text, "design_ref": ref},
                "level_note": note,
                "technique": tech,
            })
        else:
            na.append({"property_id": pid, "reason": NOT_YET.get(pid, "not claimed yet: the simulated check for this property is still under construction (see DESIGN.md section 6 for the planned procedure)")})
    m = {
        "version": 1,
        "setup_cmd": "bin/check build",
        "hooks": {
            "guard": "verif",
            "enable": "go build -tags verif (the harness module /verif/sim replaces the two repository modules with /repo/bigtable and /repo/storage)",
            "baseline_off_cmd": "bin/baseline.sh",
            "source_commits": HOOK_COMMITS,
            "add_only": False,
        },
        "engines": [{"name": "simcheck", "path": "/verif/sim", "serves_properties": sorted(CHECKS), "kind_free_text": "deterministic simulator with fault injection (Go): choice tapes, baton-passing scheduler, simulated clocks, crash images, reference models, shrinker, replay"}],
        "checks": checks,
        "notes": "Exit codes: 0 held / 1 VIOLATION (minimised, replayed in a fresh process) / 2 infrastructure. VERIF_SEED selects the master seed, VERIF_WORKERS the number of worker processes (default 8).",
        "not_applicable": na,
    }
    json.dump(m, open("/verif/MANIFEST.json", "w"), indent=1)
    print("checks:", len(checks), "not claimed:", len(na))

main()
