#!/usr/bin/env python3
"""Regenerates /verif/MANIFEST.json from the table below (kept in one place so it stays valid)."""
import json, subprocess

HOOK_COMMITS = subprocess.run(["git", "-C", "/repo", "log", "--format=%H", "--grep=^verif hooks"], capture_output=True, text=True).stdout.split()

# id -> (level, technique, text, note, design_ref)
CHECKS = {
 "C19": ("exploration",
         "deterministic simulation: seeded baton-passing scheduler over the lock map's internal steps, cancellation events as faults, invariants at every step",
         "Seeded search over interleavings of 2-4 tasks x 1-3 rounds x 1-2 keys with context cancellations on the real TransientLockMap; mutual exclusion, cancel safety, progress (deadlock/livelock verdicts), bad-unlock panic and emptiness at quiescence are checked in every run. Sampling, not the exhaustive enumeration the quantifier asks for; the number of distinct interleavings is reported.",
         "Trusted: the scheduler hooks (yields between the internal steps; wait-until in front of the channel send). The Go runtime's choice between two ready select cases is not explored.",
         "DESIGN.md 6/C19"),
}

NOT_YET = {}

def main():
    props = [json.loads(l) for l in open("/verif/properties.jsonl")]
    checks, na = [], []
    for p in props:
        pid = p["id"]
        if pid in CHECKS:
            level, tech, text, note, ref = CHECKS[pid]
            checks.append({
                "property_id": pid,
                "quick_cmd": f"bin/check {pid} quick",
                "thorough_cmd": f"bin/check {pid} thorough",
                "evidence_file": f"/verif/evidence/{pid}.json",
                "replay_cmd_template": "bin/check replay {path}",
                "engine": "simcheck",
                "level_claimed": {"category": level, "text": text, "design_ref": ref},
                "level_note": note,
                "technique": tech,
            })
        else:
            na.append({"property_id": pid, "reason": NOT_YET.get(pid, "not claimed yet: the simulated check for this property is still under construction (see DESIGN.md section 6 for the planned procedure)")})
    m = {
        "version": 1,
        "setup_cmd": "bin/check build",
        "hooks": {
            "guard": "verif",
            "enable": "go build -tags verif (the harness module /verif/sim replaces the two repository modules with /repo/bigtable and /repo/storage)",
            "baseline_off_cmd": "bin/baseline.sh",
            "source_commits": HOOK_COMMITS,
            "add_only": False,
        },
        "engines": [{"name": "simcheck", "path": "/verif/sim", "serves_properties": sorted(CHECKS), "kind_free_text": "deterministic simulator with fault injection (Go): choice tapes, baton-passing scheduler, simulated clocks, crash images, reference models, shrinker, replay"}],
        "checks": checks,
        "notes": "Exit codes: 0 held / 1 VIOLATION (minimised, replayed in a fresh process) / 2 infrastructure. VERIF_SEED selects the master seed, VERIF_WORKERS the number of worker processes (default 8).",
        "not_applicable": na,
    }
    json.dump(m, open("/verif/MANIFEST.json", "w"), indent=1)
    print("checks:", len(checks), "not claimed:", len(na))

main()
