#!/bin/bash
# Runs the repository's own test suite (the pinned baseline: both Go modules) with the
# verification build tag OFF (default) or ON (argument "on"). Prints a pass/fail summary.
export GOFLAGS=-mod=mod GOPROXY=off GOSUMDB=off GOTOOLCHAIN=local
TAGS=""
[ "$1" = "on" ] && TAGS="-tags verif"
rc=0
for m in bigtable storage; do
  (cd /repo/$m && go test $TAGS -vet=off -count=1 -timeout 25m ./...) || rc=1
done
exit $rc
