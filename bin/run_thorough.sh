#!/bin/bash
# bin/run_thorough.sh <seed> <ID>...  - thorough tier of the named checks, one after the other, for `vp run`;
# evidence and replays go to ./thorough-out (never to /verif/evidence).
V=$(cd "$(dirname "$(readlink -f "$0")")/.." && pwd)
seed=$1; shift
mkdir -p $V/thorough-out
for id in "$@"; do
  s=$(date +%s)
  VERIF_SEED=$seed VERIF_OUT=$V/thorough-out $V/bin/check $id thorough > $V/thorough-out/$id.log 2>&1
  echo "THOROUGH $id seed=$seed exit=$? $(( $(date +%s)-s ))s $(grep -c '^VIOLATION' $V/thorough-out/$id.log) violations | $(tail -1 $V/thorough-out/$id.log | cut -c1-160)"
done
echo THOROUGH-DONE
