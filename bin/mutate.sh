#!/bin/bash
# bin/mutate.sh <patch.diff> <ID> [tier]  - apply a patch to /repo, run one check, undo the patch.
# Used only for sensitivity experiments; never leaves /repo modified.
P=$(readlink -f "$1"); ID=$2; TIER=${3:-quick}
cd /repo || exit 2
if ! git diff --quiet; then echo "/repo has uncommitted changes" >&2; exit 2; fi
git apply "$P" || { echo "patch does not apply" >&2; exit 2; }
trap 'git -C /repo checkout -- . ; git -C /repo clean -fdq' EXIT
timeout ${MUT_TIMEOUT:-900} /verif/bin/check $ID $TIER
echo "exit=$?"
