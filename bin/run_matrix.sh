#!/bin/bash
# bin/run_matrix.sh <outdir> [parallel] [pattern]
#   Runs bin/seedtest.sh for every seeded change (own property's check, quick tier) and writes
#   <outdir>/<id>.txt (input of bin/gen_matrix.py). Meant for `vp run`; uses scratch worktrees under /tmp only.
#   With OTHERS=1 a change its own check misses is also run against the other checks of the same
#   emulator at VERIF_RUNS=3000.
set -u
V=$(cd "$(dirname "$(readlink -f "$0")")/.." && pwd)
OUT=$(mkdir -p "$1" && cd "$1" && pwd); PAR=${2:-2}; PAT=${3:-C*}
export VERIF_WORKERS=${VERIF_WORKERS:-6}
BT="C01 C03 C05 C06 C08 C12 C13 C14 C16 C17 C18 C20"
GCS="C02 C04 C07 C09 C10 C11 C15 C19 C20"
one() {
  d=$1; id=$(basename $d)
  [ -s $OUT/$id.txt ] && return 0
  prop=$(python3 -c "import json;print(json.load(open('$d/meta.json'))['property'])")
  $V/bin/seedtest.sh $d quick $prop > $OUT/$id.tmp 2>&1
  if [ "${OTHERS:-0}" = 1 ] && ! grep -q " $prop quick exit=1 " $OUT/$id.tmp; then
    case " $BT " in *" $prop "*) set_=$BT ;; *) set_=$GCS ;; esac
    oth=$(for o in $set_; do [ $o = $prop ] || echo -n "$o "; done)
    VERIF_RUNS=3000 $V/bin/seedtest.sh $d quick $oth >> $OUT/$id.tmp 2>&1
  fi
  mv $OUT/$id.tmp $OUT/$id.txt
  tail -1 $OUT/$id.txt | cut -c1-200
}
export -f one; export V OUT BT GCS
ls -d $V/seeded/$PAT | grep -v preserving | xargs -P $PAR -I{} bash -c 'one {}'
echo MATRIX-DONE
