package main

// C20: no request or request mix can crash or wedge either emulator.

func init() {
	register(&PropDef{
		ID: "C20", Level: "exploration", Quick: 12000, Thorough: 300000, QuickCap: 110,
		Rule:   "four sub-workloads drawn per run. bt-single: 10-60 requests to every Bigtable RPC perturbed at structure level (absent sub-messages, unset oneofs, empty/unknown names, negative and extreme numbers, invalid filters up to depth 3, inverted ranges) and at byte level (bit flips and truncation of the serialized request, kept only if it still parses; read-only RPCs and the scratch table only), optionally with a failing stream Send. bt-mix: 3 tasks from {delete+re-create table, scan, mutate, drop/create family, fetch schema, DropRowRange prefix/all} on one table plus a bystander scanning an untouched table, under the seeded scheduler. gcs-single: 10-70 HTTP requests over 25 path shapes x 7 methods x query/headers/body perturbations (truncated multipart and batch bodies, junk Content-Range, unknown upload ids, non-gzip data marked gzip), optionally with a fail-stop store error injected before the n-th store call; then a batch of 1-5 GETs whose sub-responses must equal the standalone responses. gcs-mix: listing while deleting, two chunks of one resumable upload, bucket creation while listing. Oracle: no panic, gRPC status / well-formed HTTP error (JSON body carrying the same code when it declares JSON), no deadlock/livelock/hang, afterwards valid probe requests succeed, kept data reads back unchanged and the lock map is empty; distinct = hash of (mode, request kinds, outcomes); non-trivial = every run",
		Real:   []string{"every bttest RPC handler and validation path, every gcsemu endpoint incl. batch, multipart, range and URL parsing, both stores, all engines", "net/http request parser and mux; protobuf (un)marshalling"},
		Stub:   []string{"gRPC and HTTP connections (a handler panic propagates to the simulator instead of killing the process / dropping the connection)", "cooperative mutexes; Store/Storage seams for yields and injected store errors"},
		Assume: []string{"the 'no data race / unsynchronised map access' clause cannot be seen by a simulator that runs one task at a time (every hand-over is a happens-before edge); it is covered by a supplement that is runtime monitoring, not simulation, reported separately under coverage.race_supplement: concurrent request mixes on real goroutines in a go build -race binary; a report is a true race, silence proves nothing", "perturbed writes are aimed at scratch tables/buckets only; names with '..' segments or a leading '/' are never sent (neither file-backed store confines paths)"},
		Run:    runC20,
	})
	expectedProbes["C20"] = []string{"c20.byte_level", "c20.bt_error_status", "c20.gcs_error_status", "c20.batch", "c20.table_delete_create_race", "c20.schema_change_race", "c20.drop_during_scan", "c20.list_during_delete", "c20.concurrent_chunks", "c20.request_cancelled", "c20.gc_after_perturbed_schema", "c20.opposing_copies", "c20.multi_message_scan_in_mix", "c20.table_larger_than_write_buffer"}
}

func runC20(r *Run) {
	cfg := r.T.S("cfg")
	mode := cfg.Weighted([]int{4, 3, 4, 2})
	if r.Index < 16 {
		mode = r.Index % 4
	} else if r.Index < 24 {
		mode = 1 // the eight mixes over a table larger than the engine's write buffer
	}
	switch mode {
	case 0:
		c20BTSingle(r, cfg)
	case 1:
		c20BTMix(r, cfg)
	case 2:
		c20GCSSingle(r, cfg)
	default:
		c20GCSMix(r, cfg)
	}
}
