package main

import (
	"encoding/json"
	"fmt"
	"os"
	"path/filepath"
	"sort"
)

func writeEvidence(p *PropDef, tier string, master uint64, agg *WorkerResult, hashes map[uint64]bool, wall float64, planned, workers int, vio []map[string]interface{}, knownHit []string) {
	sub := map[string]interface{}{}
	if p.Subspaces != nil {
		sizes := p.Subspaces()
		names := []string{}
		for n := range sizes {
			names = append(names, n)
		}
		sort.Strings(names)
		for _, n := range names {
			seen := map[int]bool{}
			for _, v := range agg.Sub[n] {
				seen[v] = true
			}
			sub[n] = map[string]interface{}{"size": sizes[n], "visited": len(seen), "exhaustive": len(seen) >= sizes[n]}
		}
	}
	samples := agg.Samples
	if len(samples) == 0 {
		samples = []interface{}{"no sample recorded"}
	}
	perHour := 0.0
	if wall > 0 {
		perHour = float64(agg.Runs) / wall * 3600
	}
	cov := map[string]interface{}{
		"evaluations":            agg.Runs,
		"distinct_nontrivial":    len(hashes),
		"rule":                   p.Rule,
		"samples":                samples,
		"planned_runs":           planned,
		"stopped_by_wall_cap":    agg.TimedOut,
		"runs_per_hour":          int64(perHour),
		"seeds":                  fmt.Sprintf("master seed %d; run seed i = splitmix(master ^ hash(property) ^ i*phi), i in [0,%d)", master, agg.Runs),
		"sim_time_server_s":      float64(agg.SimServerUs) / 1e6,
		"sim_time_wall_s":        float64(agg.SimWallNs) / 1e9,
		"steps_total":            agg.Steps,
		"preemptions_total":      agg.Pre,
		"distinct_interleavings": len(hashes),
		"faults_fired":           agg.Faults,
		"probes":                 agg.Probes,
		"subspaces":              sub,
		"components":             map[string]interface{}{"real": p.Real, "stub": p.Stub},
		"known_findings_hit":     knownHit,
		"workers":                workers,
		"violation_details":      vio,
	}
	if determinismEvidence != nil {
		cov["determinism_sample"] = determinismEvidence
	}
	if raceEvidence != nil {
		cov["race_supplement"] = raceEvidence
	}
	ev := map[string]interface{}{
		"property_id": p.ID,
		"tier":        tier,
		"seed":        int64(master),
		"level":       p.Level,
		"coverage":    cov,
		"assumptions": p.Assume,
		"wall_s":      wall,
		"violations":  len(vio),
	}
	os.MkdirAll(filepath.Join(outRoot(), "evidence"), 0777)
	b, _ := json.MarshalIndent(ev, "", " ")
	os.WriteFile(filepath.Join(outRoot(), "evidence", p.ID+".json"), b, 0666)
}
