package main

import (
	"bytes"
	"crypto/md5"
	"encoding/json"
	"fmt"
	"net/url"
	"sort"
	"strconv"
	"strings"
)

// Reference model of the GCS object store, written from the statements of C02, C04, C10, C15.

type gObj struct {
	Content     []byte
	ContentType string // "" = none was sent (then not compared)
	Metadata    map[string]string
	CC, CD, CL  string
	Md5         string // "" for composite objects
	Gen         int64  // as observed at the successful write (opaque, ordered)
	Metagen     int64
}

func (o *gObj) clone() *gObj {
	c := *o
	c.Content = append([]byte(nil), o.Content...)
	c.Metadata = map[string]string{}
	for k, v := range o.Metadata {
		c.Metadata[k] = v
	}
	return &c
}

type gModel struct {
	Buckets map[string]map[string]*gObj
	Gens    map[string][]int64 // bucket/name -> every generation that name ever had
}

func newGModel() *gModel {
	return &gModel{Buckets: map[string]map[string]*gObj{}, Gens: map[string][]int64{}}
}

func (m *gModel) obj(b, n string) *gObj {
	if bk := m.Buckets[b]; bk != nil {
		return bk[n]
	}
	return nil
}

func (m *gModel) names(b string) []string {
	var ns []string
	for n := range m.Buckets[b] {
		ns = append(ns, n)
	}
	sort.Strings(ns)
	return ns
}

func (m *gModel) bucketNames() []string {
	var bs []string
	for b := range m.Buckets {
		bs = append(bs, b)
	}
	sort.Strings(bs)
	return bs
}

// ---- preconditions (C04 truth table) --------------------------------------------------------

type condVerdict struct {
	junk    bool
	pass    bool
	allowed map[int]bool // admissible failure statuses
}

func evalConds(c gConds, o *gObj) condVerdict {
	v := condVerdict{allowed: map[int]bool{}}
	parse := func(s *string) (int64, bool, bool) { // value, set, junk
		if s == nil {
			return 0, false, false
		}
		n, err := strconv.ParseInt(*s, 10, 64)
		if err != nil {
			return 0, true, true
		}
		return n, true, false
	}
	gm, gmSet, j1 := parse(c.GenMatch)
	gn, gnSet, j2 := parse(c.GenNotMatch)
	mm, mmSet, j3 := parse(c.MetaMatch)
	mn, mnSet, j4 := parse(c.MetaNotMatch)
	if j1 || j2 || j3 || j4 {
		v.junk = true
		return v
	}
	if o == nil {
		// only "no condition" or "must not exist" can pass
		onlyDNE := gmSet && gm == 0 && !gnSet && !mmSet && !mnSet
		none := !gmSet && !gnSet && !mmSet && !mnSet
		if onlyDNE || none {
			v.pass = true
			return v
		}
		v.allowed[412] = true
		if gnSet || mnSet {
			v.allowed[304] = true
		}
		return v
	}
	failM, failN := false, false
	if gmSet && (gm == 0 || gm != o.Gen) {
		failM = true
	}
	if gnSet && gn == o.Gen {
		failN = true
	}
	if mmSet && mm != o.Metagen {
		failM = true
	}
	if mnSet && mn == o.Metagen {
		failN = true
	}
	if !failM && !failN {
		v.pass = true
		return v
	}
	if failM {
		v.allowed[412] = true
	}
	if failN {
		v.allowed[304] = true
	}
	return v
}

// ---- operations -----------------------------------------------------------------------------

type gOp struct {
	Kind   string // Upload Get Media Patch Delete Compose Copy List CreateBucket
	Proto  string // media | multipart | resumable
	Up     upSpec
	Chunks []int // resumable chunk sizes (nil = one chunk)
	Bucket string
	Name   string
	Form   int
	Conds  gConds
	Body   map[string]interface{}
	// compose
	Srcs    []string
	SrcGens []*string
	DstMeta map[string]interface{}
	NoDest  bool
	DstB    string
	DstN    string
	ListQ   url.Values
	BadMd5  bool
	Resum   *resumPlan
	Between *gOp // resumable upload: another request issued between initiation and completion
	// Folder: the name was never uploaded and is a "/"-prefix of stored names; in the file store
	// it is not representable as an object, so any error status is accepted (404 otherwise).
	Folder bool
}

func (o gOp) String() string {
	switch o.Kind {
	case "Upload":
		s := fmt.Sprintf("Upload[%s] %s/%q %d bytes ct=%q md5=%q meta=%v", o.Proto, o.Up.Bucket, o.Up.Name, len(o.Up.Content), o.Up.ContentType, o.Up.Md5, o.Up.Metadata)
		if cs := o.Up.Conds.String(); cs != "" {
			s += " " + cs
		}
		if o.Up.Gzip {
			s += " gzip"
		}
		if o.Resum != nil {
			s += " " + o.Resum.String()
		}
		return s
	case "Get":
		return fmt.Sprintf("GetMeta %s/%q", o.Bucket, o.Name)
	case "Media":
		return fmt.Sprintf("GetMedia[form %d] %s/%q", o.Form, o.Bucket, o.Name)
	case "Patch":
		return fmt.Sprintf("Patch %s/%q %s %s", o.Bucket, o.Name, jsonStr(o.Body), o.Conds)
	case "Delete":
		return fmt.Sprintf("Delete %s/%q %s", o.Bucket, o.Name, o.Conds)
	case "Compose":
		var gs []string
		for _, g := range o.SrcGens {
			if g == nil {
				gs = append(gs, "-")
			} else {
				gs = append(gs, *g)
			}
		}
		return fmt.Sprintf("Compose %s/%q <- %q gens=%v dest=%s %s", o.Bucket, o.Name, o.Srcs, gs, jsonStr(o.DstMeta), o.Conds)
	case "Copy":
		return fmt.Sprintf("Copy %s/%q -> %s/%q", o.Bucket, o.Name, o.DstB, o.DstN)
	case "List":
		return fmt.Sprintf("List %s %s", o.Bucket, o.ListQ.Encode())
	case "CreateBucket":
		return "CreateBucket " + o.Bucket
	case "DeleteBucket":
		return "DeleteBucket " + o.Bucket
	case "GetBucket":
		return "GetBucket " + o.Bucket
	}
	return o.Kind
}

type gResp struct {
	Status   int
	Meta     *gMeta
	Body     []byte
	HdrGen   string
	HdrMeta  string
	CT       string
	Rewrite  map[string]interface{}
	ErrJSON  bool
	Trace    []string // resumable: the requests that were sent
	Declared string
	Between  *gResp
}

func (w *GCSWorld) composeReq(o gOp) *HResp {
	var srcs []map[string]interface{}
	for i, s := range o.Srcs {
		m := map[string]interface{}{"name": s}
		if i < len(o.SrcGens) && o.SrcGens[i] != nil {
			m["objectPreconditions"] = map[string]interface{}{"ifGenerationMatch": *o.SrcGens[i]}
		}
		srcs = append(srcs, m)
	}
	body := map[string]interface{}{"kind": "storage#composeRequest", "sourceObjects": srcs}
	if !o.NoDest {
		d := o.DstMeta
		if d == nil {
			d = map[string]interface{}{}
		}
		body["destination"] = d
	}
	b, _ := json.Marshal(body)
	return w.Do(HReq{Method: "POST", Path: objPath(o.Bucket, o.Name) + "/compose", Query: condQuery(o.Conds), Headers: map[string]string{"Content-Type": "application/json"}, Body: b})
}

func (w *GCSWorld) copyReq(o gOp) *HResp {
	p := objPath(o.Bucket, o.Name) + "/rewriteTo/b/" + url.PathEscape(o.DstB) + "/o/" + escName(o.DstN)
	return w.Do(HReq{Method: "POST", Path: p, Headers: map[string]string{"Content-Type": "application/json"}, Body: []byte("{}")})
}

func execG(w *GCSWorld, o gOp) gResp {
	var h *HResp
	var out gResp
	switch o.Kind {
	case "CreateBucket":
		h = w.CreateBucket(o.Bucket)
	case "DeleteBucket":
		h = w.Do(HReq{Method: "DELETE", Path: "/storage/v1/b/" + url.PathEscape(o.Bucket)})
	case "GetBucket":
		h = w.Do(HReq{Method: "GET", Path: "/storage/v1/b/" + url.PathEscape(o.Bucket)})
	case "Upload":
		switch o.Proto {
		case "media":
			h = w.UploadMedia(o.Up)
		case "multipart":
			h = w.UploadMultipart(o.Up)
		default:
			h, out.Trace, out.Between = runResumable(w, o)
		}
	case "Get":
		h = w.GetMeta(o.Bucket, o.Name)
	case "Media":
		h = w.GetMedia(o.Bucket, o.Name, o.Form)
	case "Patch":
		h = w.Patch(o.Bucket, o.Name, o.Body, o.Conds)
	case "Delete":
		h = w.Delete(o.Bucket, o.Name, o.Conds)
	case "Compose":
		h = w.composeReq(o)
	case "Copy":
		h = w.copyReq(o)
	default:
		harnessErr("execG: %s", o.Kind)
	}
	out.Status = h.Status
	out.Body = h.Body
	out.HdrGen = h.Header.Get("X-Goog-Generation")
	out.HdrMeta = h.Header.Get("X-Goog-Metageneration")
	out.CT = h.Header.Get("Content-Type")
	if strings.HasPrefix(out.CT, "application/json") {
		if m := h.JSON(); m != nil {
			if o.Kind == "Copy" && h.Status == 200 {
				out.Rewrite = m
				if res, ok := m["resource"].(map[string]interface{}); ok {
					out.Meta = parseMeta(res)
				}
			} else if _, isErr := m["error"]; isErr {
				out.ErrJSON = true
			} else if o.Kind != "Media" {
				out.Meta = parseMeta(m)
			}
		}
	}
	return out
}

// ---- model step -----------------------------------------------------------------------------

func ok2xx(s int) bool { return s >= 200 && s < 300 }

// freshGen checks the generation law for a successful content write and records it.
func (m *gModel) freshGen(b, n string, gen int64) string {
	k := b + "/" + n
	for _, g := range m.Gens[k] {
		if gen == g {
			return fmt.Sprintf("generation %d was already used by an earlier version of %s", gen, k)
		}
		if gen < g {
			return fmt.Sprintf("generation %d is not greater than the earlier generation %d of %s", gen, g, k)
		}
	}
	m.Gens[k] = append(m.Gens[k], gen)
	return ""
}

func metaMatches(g *gMeta, o *gObj, b, n string) string {
	if g == nil {
		return "no object resource in the response"
	}
	if g.Name != n || g.Bucket != b {
		return fmt.Sprintf("resource names %s/%q, want %s/%q", g.Bucket, g.Name, b, n)
	}
	if g.Size != int64(len(o.Content)) {
		return fmt.Sprintf("size %d, want %d", g.Size, len(o.Content))
	}
	if o.Md5 != "" && g.Md5 != o.Md5 {
		return fmt.Sprintf("md5Hash %q, want %q", g.Md5, o.Md5)
	}
	if o.ContentType != "" && g.ContentType != o.ContentType {
		return fmt.Sprintf("contentType %q, want %q", g.ContentType, o.ContentType)
	}
	if g.Gen != o.Gen {
		return fmt.Sprintf("generation %d, want %d", g.Gen, o.Gen)
	}
	if g.Metagen != o.Metagen {
		return fmt.Sprintf("metageneration %d, want %d", g.Metagen, o.Metagen)
	}
	if len(g.Metadata) != len(o.Metadata) {
		return fmt.Sprintf("metadata %v, want %v", g.Metadata, o.Metadata)
	}
	for k, v := range o.Metadata {
		if g.Metadata[k] != v {
			return fmt.Sprintf("metadata %v, want %v", g.Metadata, o.Metadata)
		}
	}
	if g.CacheControl != o.CC || g.ContentDisposition != o.CD || g.ContentLang != o.CL {
		return fmt.Sprintf("cacheControl/contentDisposition/contentLanguage %q/%q/%q, want %q/%q/%q", g.CacheControl, g.ContentDisposition, g.ContentLang, o.CC, o.CD, o.CL)
	}
	return ""
}

func objFromUpload(u upSpec) *gObj {
	o := &gObj{Content: append([]byte(nil), u.Content...), ContentType: u.ContentType, Metadata: map[string]string{}, Md5: md5b64(u.Content), Metagen: 1}
	for k, v := range u.Metadata {
		o.Metadata[k] = v
	}
	if v, ok := u.Extra["cacheControl"].(string); ok {
		o.CC = v
	}
	if v, ok := u.Extra["contentDisposition"].(string); ok {
		o.CD = v
	}
	if v, ok := u.Extra["contentLanguage"].(string); ok {
		o.CL = v
	}
	return o
}

func applyDstMeta(o *gObj, d map[string]interface{}) {
	if v, ok := d["contentType"].(string); ok {
		o.ContentType = v
	}
	if md, ok := d["metadata"].(map[string]string); ok {
		for k, v := range md {
			o.Metadata[k] = v
		}
	}
	if v, ok := d["cacheControl"].(string); ok {
		o.CC = v
	}
	if v, ok := d["contentDisposition"].(string); ok {
		o.CD = v
	}
	if v, ok := d["contentLanguage"].(string); ok {
		o.CL = v
	}
}

// step checks one response against the model and updates it. Returns (kind, message).
func (m *gModel) step(op gOp, r gResp) (string, string) {
	fail := func(kind, f string, a ...interface{}) (string, string) {
		return kind, fmt.Sprintf("%s -> HTTP %d: ", op, r.Status) + fmt.Sprintf(f, a...)
	}
	hdrAgree := func(o *gObj) string {
		if r.HdrGen != "" && r.HdrGen != strconv.FormatInt(o.Gen, 10) {
			return fmt.Sprintf("x-goog-generation header %s, body %d", r.HdrGen, o.Gen)
		}
		if r.HdrMeta != "" && r.HdrMeta != strconv.FormatInt(o.Metagen, 10) {
			return fmt.Sprintf("x-goog-metageneration header %s, want %d", r.HdrMeta, o.Metagen)
		}
		return ""
	}
	switch op.Kind {
	case "CreateBucket":
		if m.Buckets[op.Bucket] != nil {
			// creating a bucket that exists: answered OK or refused (the real service says
			// 409); either way the bucket keeps everything it holds
			return "", ""
		}
		if !ok2xx(r.Status) {
			return fail("valid-rejected", "bucket creation failed: %s", r.Body)
		}
		m.Buckets[op.Bucket] = map[string]*gObj{}
	case "DeleteBucket":
		// the bucket goes with everything in it (or, as the real service would for a bucket
		// that still holds objects, the request is refused with 409 and nothing changes)
		if m.Buckets[op.Bucket] == nil {
			if r.Status != 404 {
				return fail("missing-bucket", "deleting a bucket that does not exist must give 404")
			}
			return "", ""
		}
		if r.Status == 409 && len(m.Buckets[op.Bucket]) > 0 {
			return "", ""
		}
		if !ok2xx(r.Status) {
			return fail("valid-rejected", "bucket deletion failed: %s", shortVal(string(r.Body)))
		}
		delete(m.Buckets, op.Bucket)
	case "GetBucket":
		if m.Buckets[op.Bucket] == nil {
			if r.Status != 404 {
				return fail("missing-bucket", "a bucket that does not exist (never created, or deleted) must give 404")
			}
			return "", ""
		}
		if r.Status != 200 {
			return fail("valid-rejected", "bucket metadata: %s", shortVal(string(r.Body)))
		}
	case "Upload":
		b, n := op.Up.Bucket, op.Up.Name
		if op.Between != nil && r.Between != nil {
			// the conditions of a resumable upload are evaluated at completion
			if k, msg := m.step(*op.Between, *r.Between); k != "" {
				return k, msg
			}
		}
		cur := m.obj(b, n)
		cv := evalConds(op.Up.Conds, cur)
		if cv.junk {
			if r.Status != 400 {
				return fail("junk-condition", "an unparsable precondition must give 400")
			}
			return "", ""
		}
		if op.BadMd5 {
			if ok2xx(r.Status) {
				return fail("bad-md5-accepted", "declared MD5 %q does not match the bytes (%q) but the upload succeeded", op.Up.Md5, md5b64(op.Up.Content))
			}
			if r.Status < 400 || r.Status >= 500 {
				return fail("bad-md5-status", "a mismatching MD5 must be rejected with a 4xx")
			}
			return "", ""
		}
		if !cv.pass {
			if ok2xx(r.Status) {
				return fail("precondition-ignored", "preconditions %s do not hold against %s but the upload was performed", op.Up.Conds, objState(cur))
			}
			if !cv.allowed[r.Status] {
				return fail("precondition-status", "failed precondition must give %v", keysOf(cv.allowed))
			}
			return "", ""
		}
		if !ok2xx(r.Status) {
			return fail("valid-rejected", "preconditions %s hold against %s, upload must succeed: %s", op.Up.Conds, objState(cur), firstLines(string(r.Body), 3))
		}
		no := objFromUpload(op.Up)
		if r.Meta == nil {
			return fail("upload-response", "no object resource in the response body: %s", shortVal(string(r.Body)))
		}
		no.Gen = r.Meta.Gen
		if msg := m.freshGen(b, n, no.Gen); msg != "" {
			return fail("generation-law", "%s", msg)
		}
		if msg := metaMatches(r.Meta, no, b, n); msg != "" {
			return fail("upload-response", "%s", msg)
		}
		if msg := hdrAgree(no); msg != "" {
			return fail("header-disagrees", "%s", msg)
		}
		if m.Buckets[b] == nil {
			m.Buckets[b] = map[string]*gObj{}
		}
		m.Buckets[b][n] = no
	case "Get":
		cur := m.obj(op.Bucket, op.Name)
		if cur == nil {
			if op.Folder && r.Status >= 400 {
				return "", ""
			}
			if r.Status != 404 {
				return fail("absent-object", "metadata of an absent object must be 404")
			}
			return "", ""
		}
		if r.Status != 200 {
			return fail("get-failed", "object exists: %s", shortVal(string(r.Body)))
		}
		if msg := metaMatches(r.Meta, cur, op.Bucket, op.Name); msg != "" {
			return fail("metadata-mismatch", "%s", msg)
		}
	case "Media":
		cur := m.obj(op.Bucket, op.Name)
		if cur == nil {
			if op.Folder && r.Status >= 400 {
				return "", ""
			}
			if r.Status != 404 {
				return fail("absent-object", "download of an absent object must be 404")
			}
			return "", ""
		}
		if r.Status != 200 {
			return fail("download-failed", "object exists: %s", shortVal(string(r.Body)))
		}
		if !bytes.Equal(r.Body, cur.Content) {
			return fail("download-mismatch", "body %s (%d bytes), want %s (%d bytes)", shortVal(string(r.Body)), len(r.Body), shortVal(string(cur.Content)), len(cur.Content))
		}
		if cur.ContentType != "" && r.CT != cur.ContentType {
			return fail("download-content-type", "Content-Type %q, want %q", r.CT, cur.ContentType)
		}
		if msg := hdrAgree(cur); msg != "" {
			return fail("header-disagrees", "%s", msg)
		}
	case "Delete":
		cur := m.obj(op.Bucket, op.Name)
		cv := evalConds(op.Conds, cur)
		if cv.junk {
			if r.Status != 400 {
				return fail("junk-condition", "an unparsable precondition must give 400")
			}
			return "", ""
		}
		if cur == nil {
			if r.Status == 404 || (!cv.pass && cv.allowed[r.Status]) || (op.Folder && r.Status >= 400) {
				return "", ""
			}
			return fail("absent-object", "delete of an absent object must be 404 (or a precondition failure)")
		}
		if !cv.pass {
			if ok2xx(r.Status) {
				return fail("precondition-ignored", "preconditions %s do not hold against %s but the delete was performed", op.Conds, objState(cur))
			}
			if !cv.allowed[r.Status] {
				return fail("precondition-status", "failed precondition must give %v", keysOf(cv.allowed))
			}
			return "", ""
		}
		if !ok2xx(r.Status) {
			return fail("valid-rejected", "delete must succeed: %s", shortVal(string(r.Body)))
		}
		delete(m.Buckets[op.Bucket], op.Name)
	case "Patch":
		cur := m.obj(op.Bucket, op.Name)
		cv := evalConds(op.Conds, cur)
		if cv.junk {
			if r.Status != 400 {
				return fail("junk-condition", "an unparsable precondition must give 400")
			}
			return "", ""
		}
		if cur == nil {
			if r.Status == 404 || (!cv.pass && cv.allowed[r.Status]) {
				return "", ""
			}
			return fail("absent-object", "patch of an absent object must be 404 (or a precondition failure)")
		}
		if !cv.pass {
			if ok2xx(r.Status) {
				return fail("precondition-ignored", "preconditions %s do not hold against %s but the patch was applied", op.Conds, objState(cur))
			}
			if !cv.allowed[r.Status] {
				return fail("precondition-status", "failed precondition must give %v", keysOf(cv.allowed))
			}
			return "", ""
		}
		if !ok2xx(r.Status) {
			return fail("valid-rejected", "patch must succeed: %s", shortVal(string(r.Body)))
		}
		no := cur.clone()
		applyDstMeta(no, op.Body)
		no.Metagen = cur.Metagen + 1
		if msg := metaMatches(r.Meta, no, op.Bucket, op.Name); msg != "" {
			return fail("patch-response", "%s (before: %s)", msg, objState(cur))
		}
		m.Buckets[op.Bucket][op.Name] = no
	case "Compose":
		cur := m.obj(op.Bucket, op.Name)
		cv := evalConds(op.Conds, cur)
		if cv.junk {
			if r.Status != 400 {
				return fail("junk-condition", "an unparsable precondition must give 400")
			}
			return "", ""
		}
		if len(op.Srcs) > 32 {
			if r.Status != 400 {
				return fail("compose-too-many", "%d sources must give 400", len(op.Srcs))
			}
			return "", ""
		}
		var data []byte
		missing := ""
		srcFail, srcJunk := false, false
		for i, s := range op.Srcs {
			so := m.obj(op.Bucket, s)
			if so == nil {
				missing = s
				break
			}
			if i < len(op.SrcGens) && op.SrcGens[i] != nil {
				g, err := strconv.ParseInt(*op.SrcGens[i], 10, 64)
				if err != nil {
					srcJunk = true
					break
				}
				if g != so.Gen {
					srcFail = true
					break
				}
			}
			data = append(data, so.Content...)
		}
		if missing != "" {
			if r.Status != 404 {
				// a failing destination precondition may be reported first
				if !cv.pass && cv.allowed[r.Status] {
					return "", ""
				}
				return fail("compose-missing-source", "source %q does not exist: want 404", missing)
			}
			return "", ""
		}
		if srcJunk {
			if r.Status != 400 {
				return fail("junk-condition", "an unparsable per-source generation must give 400")
			}
			return "", ""
		}
		if srcFail || !cv.pass {
			if ok2xx(r.Status) {
				return fail("precondition-ignored", "a destination or per-source precondition does not hold but the compose was performed")
			}
			if r.Status != 412 && !(cv.allowed[r.Status]) {
				return fail("precondition-status", "failed precondition must give 412 (or %v)", keysOf(cv.allowed))
			}
			return "", ""
		}
		if !ok2xx(r.Status) {
			return fail("valid-rejected", "compose must succeed: %s", firstLines(string(r.Body), 3))
		}
		no := &gObj{Content: data, Metadata: map[string]string{}, Metagen: 1}
		applyDstMeta(no, op.DstMeta)
		if r.Meta == nil {
			return fail("compose-response", "no object resource in the response")
		}
		no.Gen = r.Meta.Gen
		if msg := m.freshGen(op.Bucket, op.Name, no.Gen); msg != "" {
			return fail("generation-law", "%s", msg)
		}
		if msg := metaMatches(r.Meta, no, op.Bucket, op.Name); msg != "" {
			return fail("compose-response", "%s", msg)
		}
		m.Buckets[op.Bucket][op.Name] = no
	case "Copy":
		src := m.obj(op.Bucket, op.Name)
		if src == nil {
			if r.Status != 404 {
				return fail("copy-missing-source", "source does not exist: want 404")
			}
			return "", ""
		}
		if !ok2xx(r.Status) {
			return fail("valid-rejected", "copy must succeed: %s", firstLines(string(r.Body), 3))
		}
		no := src.clone()
		no.Metagen = 1
		if r.Meta == nil {
			return fail("copy-response", "no resource in the rewrite response: %s", shortVal(string(r.Body)))
		}
		no.Gen = r.Meta.Gen
		if msg := m.freshGen(op.DstB, op.DstN, no.Gen); msg != "" {
			return fail("generation-law", "%s", msg)
		}
		if msg := metaMatches(r.Meta, no, op.DstB, op.DstN); msg != "" {
			return fail("copy-response", "%s", msg)
		}
		if num(r.Rewrite["totalBytesRewritten"]) != int64(len(src.Content)) || num(r.Rewrite["objectSize"]) != int64(len(src.Content)) || r.Rewrite["done"] != true {
			return fail("copy-response", "byte counts/done %v/%v/%v, want %d/%d/true", r.Rewrite["totalBytesRewritten"], r.Rewrite["objectSize"], r.Rewrite["done"], len(src.Content), len(src.Content))
		}
		if m.Buckets[op.DstB] == nil {
			m.Buckets[op.DstB] = map[string]*gObj{}
		}
		m.Buckets[op.DstB][op.DstN] = no
	}
	return "", ""
}

func objState(o *gObj) string {
	if o == nil {
		return "an absent object"
	}
	return fmt.Sprintf("generation %d / metageneration %d", o.Gen, o.Metagen)
}

func keysOf(m map[int]bool) []int {
	var ks []int
	for k := range m {
		ks = append(ks, k)
	}
	sort.Ints(ks)
	return ks
}

// fullCompareG reads everything back through HTTP (listing, metadata, media) and compares.
func fullCompareG(w *GCSWorld, m *gModel) (string, string) {
	for _, b := range m.bucketNames() {
		resp, lp := w.ListPage(b, url.Values{"maxResults": {"100000"}})
		if lp == nil {
			return "list-failed", fmt.Sprintf("listing of bucket %s failed: HTTP %d %s", b, resp.Status, shortVal(string(resp.Body)))
		}
		want := m.names(b)
		var got []string
		for _, it := range lp.Items {
			got = append(got, it.Name)
		}
		// the order of a listing is C11's business: compare as sets here
		sort.SliceStable(lp.Items, func(i, j int) bool { return lp.Items[i].Name < lp.Items[j].Name })
		sort.Strings(got)
		if strings.Join(got, "\x00") != strings.Join(want, "\x00") {
			return "state-mismatch", fmt.Sprintf("bucket %s lists %q, want %q", b, got, want)
		}
		for i, n := range want {
			o := m.obj(b, n)
			if msg := metaMatches(lp.Items[i], o, b, n); msg != "" {
				return "state-mismatch", fmt.Sprintf("listing item %s/%q: %s", b, n, msg)
			}
			g := w.GetMeta(b, n)
			if g.Status != 200 {
				return "state-mismatch", fmt.Sprintf("metadata of %s/%q: HTTP %d", b, n, g.Status)
			}
			if msg := metaMatches(parseMeta(g.JSON()), o, b, n); msg != "" {
				return "state-mismatch", fmt.Sprintf("metadata of %s/%q: %s", b, n, msg)
			}
			md := w.GetMedia(b, n, 0)
			if md.Status != 200 || !bytes.Equal(md.Body, o.Content) {
				return "state-mismatch", fmt.Sprintf("content of %s/%q: HTTP %d %s, want %s", b, n, md.Status, shortVal(string(md.Body)), shortVal(string(o.Content)))
			}
		}
	}
	return "", ""
}

// rawStateG is the complete metadata resource of every object the model knows, exactly as the
// emulator reports it (every member, not only the ones the model follows), and its content.
// "A failed request changes nothing" is decided on this rendering.
func rawStateG(w *GCSWorld, m *gModel) map[string]string {
	out := map[string]string{}
	for _, b := range m.bucketNames() {
		for _, n := range m.names(b) {
			g := w.GetMeta(b, n)
			var v interface{}
			body := string(g.Body)
			if json.Unmarshal(g.Body, &v) == nil {
				if c, err := json.Marshal(v); err == nil { // members sorted
					body = string(c)
				}
			}
			md := w.GetMedia(b, n, 0)
			out[b+"/"+n] = fmt.Sprintf("HTTP %d %s | media HTTP %d %x", g.Status, body, md.Status, md5.Sum(md.Body))
		}
	}
	return out
}

func diffRawG(a, b map[string]string) string {
	for k, v := range a {
		if b[k] != v {
			return fmt.Sprintf("object %s was %s and is now %s", k, v, b[k])
		}
	}
	return ""
}
