package main

import (
	"fmt"
	"net/http"

	"github.com/fullstorydev/emulators/storage/gcsemu"
)

// Resumable-upload client with the perturbations a real client/network produces (DESIGN F.5).

type resumPlan struct {
	Chunks     []int // chunk sizes (the last chunk takes the remainder)
	KnownTotal bool  // declare the total in every chunk ("/N") or only in the last one ("/*" before)
	Actions    []int // per step: 0 next chunk, 1 status query first, 2 re-send the previous range, 3 duplicate the request, 4 response lost (re-send), 5 finish by "bytes */N", 6 server restart (file store), 7 re-send from the middle of the previous range and continue past it in one request
	StarQuery  bool  // status queries use "bytes */*"
}

func (p *resumPlan) String() string {
	return fmt.Sprintf("chunks=%v known_total=%v actions=%v", p.Chunks, p.KnownTotal, p.Actions)
}

// RestartInPlace rebuilds the emulator on the same store directory (file store) or the same
// memory store object: pending uploads die with the instance.
func (w *GCSWorld) RestartInPlace() {
	if w.Store == "file" {
		w.ys = &yStore{in: gcsemu.NewFileStore(w.Dir)}
	}
	w.emu = gcsemu.NewGcsEmu(gcsemu.Options{Store: w.ys})
	w.mux = http.NewServeMux()
	w.emu.Register(w.mux)
}

func runResumable(w *GCSWorld, o gOp) (*HResp, []string, *gResp) {
	var trace []string
	var between *gResp
	r := w.r
	plan := o.Resum
	if plan == nil {
		plan = &resumPlan{KnownTotal: true}
	}
	P := o.Up.Content
	N := int64(len(P))
	note := func(f string, a ...interface{}) { trace = append(trace, fmt.Sprintf(f, a...)) }
	bad := func(resp *HResp, f string, a ...interface{}) *HResp {
		r.Fail("resumable-protocol", "", "%s: %s\n  requests so far: %v", o, fmt.Sprintf(f, a...), trace)
		return resp
	}
restart:
	first, id := w.ResumableStart(o.Up)
	note("POST resumable -> %d id=%q", first.Status, id)
	if first.Status != 200 || id == "" {
		return first, trace, between
	}
	if o.Between != nil && between == nil {
		br := execG(w, *o.Between)
		between = &br
		note("meanwhile: %s -> %d", *o.Between, br.Status)
	}
	var acked int64
	var prevLo int64 = -1
	var prevN int
	ci := 0
	for step := 0; step < 64; step++ {
		act := 0
		if step < len(plan.Actions) {
			act = plan.Actions[step]
		}
		total := int64(-1)
		if plan.KnownTotal {
			total = N
		}
		if act == 6 {
			if w.Store != "file" {
				act = 0
			} else {
				r.Fault("server_restart_mid_upload")
				w.RestartInPlace()
				resp := w.ResumableChunk(o.Up.Bucket, id, nil, -1, N, false)
				note("restart; status query -> %d", resp.Status)
				if resp.Status < 400 {
					return bad(resp, "after a server restart the upload id must be unknown (an error status), got %d", resp.Status), trace, between
				}
				plan = &resumPlan{Chunks: plan.Chunks, KnownTotal: plan.KnownTotal}
				goto restart
			}
		}
		if act == 1 || act == 5 {
			qt := N
			if plan.StarQuery && act == 1 {
				qt = -1
			}
			r.Fault("status_query")
			resp := w.ResumableChunk(o.Up.Bucket, id, nil, -1, qt, false)
			note("PUT bytes */%d -> %d Range=%q", qt, resp.Status, resp.Header.Get("Range"))
			if resp.Status == 200 || resp.Status == 201 {
				if acked != N || qt < 0 {
					return bad(resp, "a status query completed the upload although only %d of %d bytes were sent", acked, N), trace, between
				}
				r.Probe("c02.finished_by_status_query")
				return resp, trace, between
			}
			if resp.Status != 308 {
				return resp, trace, between
			}
			if got := rangeEnd(resp.Header.Get("Range")); got != acked {
				return bad(resp, "status query reports %d bytes received (Range %q), client sent %d", got, resp.Header.Get("Range"), acked), trace, between
			}
			if act == 5 && acked < N {
				act = 0
			} else if act == 5 {
				continue
			}
		}
		lo := acked
		n := int(N - acked)
		if ci < len(plan.Chunks) && plan.Chunks[ci] < n {
			n = plan.Chunks[ci]
		}
		if act == 2 && prevLo >= 0 {
			// re-send an earlier range (the server must truncate and continue from there)
			r.Fault("resend_earlier_range")
			lo, n = prevLo, prevN
		} else if act == 7 && prevLo >= 0 && prevN >= 2 && acked == prevLo+int64(prevN) && acked < N {
			// the client resumes from an offset inside what the server already holds and its
			// range reaches past it: the overlapping bytes are sent again, new ones follow
			r.Fault("resend_overlapping_range")
			r.Probe("c02.resend_overlapping_range")
			lo = prevLo + int64(prevN)/2
			n = int(acked-lo) + n
			ci++
		} else {
			ci++
		}
		last := lo+int64(n) == N
		t := total
		if last {
			t = N
		}
		if last && act == 5 && N > 0 {
			// hold back the total: send the bytes with "/*" and finish with "bytes */N"
			t = -1
		}
		send := func() *HResp {
			resp := w.ResumableChunk(o.Up.Bucket, id, P[lo:lo+int64(n)], lo, t, o.Up.Gzip)
			note("PUT bytes %d-%d/%d -> %d Range=%q", lo, lo+int64(n)-1, t, resp.Status, resp.Header.Get("Range"))
			return resp
		}
		if n == 0 {
			// empty payload (or nothing left): finish with a status-style request
			resp := w.ResumableChunk(o.Up.Bucket, id, nil, -1, N, false)
			note("PUT bytes */%d -> %d", N, resp.Status)
			return resp, trace, between
		}
		resp := send()
		if act == 4 && resp.Status == 308 {
			r.Fault("lost_response")
			resp = send()
		}
		if act == 3 {
			r.Fault("dup_request")
			dup := send()
			if resp.Status == 308 {
				resp = dup
			}
		}
		prevLo, prevN = lo, n
		switch {
		case resp.Status == 308:
			want := lo + int64(n)
			if got := rangeEnd(resp.Header.Get("Range")); got != want {
				return bad(resp, "after bytes %d-%d the server reports %d bytes received (Range %q), want %d", lo, lo+int64(n)-1, got, resp.Header.Get("Range"), want), trace, between
			}
			if t >= 0 && want >= t {
				return bad(resp, "all %d bytes sent with the total declared, but the server answered 308", t), trace, between
			}
			acked = want
			if acked == N {
				// everything is there but the total was never declared: finish explicitly
				fin := w.ResumableChunk(o.Up.Bucket, id, nil, -1, N, false)
				note("PUT bytes */%d -> %d", N, fin.Status)
				r.Probe("c02.finished_by_status_query")
				return fin, trace, between
			}
		default:
			if resp.Status == 400 && o.BadMd5 && last {
				// the server refused the bytes (declared MD5 mismatch); a client that simply
				// tries to finalise once more must be refused again, not rewarded
				r.Fault("refinalise_after_rejection")
				r.Probe("c02.refinalise_after_rejection")
				again := w.ResumableChunk(o.Up.Bucket, id, nil, -1, N, false)
				note("PUT bytes */%d (again) -> %d", N, again.Status)
				if again.Status == 200 || again.Status == 201 {
					return again, trace, between
				}
			}
			return resp, trace, between
		}
	}
	return bad(first, "upload did not finish within 64 steps"), trace, between
}
