package main

import (
	"fmt"
	"os"
	"strings"

	btapb "cloud.google.com/go/bigtable/admin/apiv2/adminpb"
	btpb "cloud.google.com/go/bigtable/apiv2/bigtablepb"
	"google.golang.org/grpc/codes"
)

// C17: the choice of storage engine is unobservable to clients (differential, sequential).

func init() {
	register(&PropDef{
		ID: "C17", Level: "exploration", Quick: 7500, Thorough: 250000, QuickCap: 110, PerProc: 800,
		Rule:   "each run = one tape of 3-40 pre-drawn operation records executed against three servers (btree, leveldb-memory, leveldb-disk; every fourth run also the leveldb-memory engine behind a real gRPC connection on a loopback socket, which must answer exactly like the direct-call stub): table create/delete/re-create, family changes, DropRowRange prefix/all, MutateRow(s), CheckAndMutateRow, ReadModifyWriteRow, reads with row sets, limits and filter trees (including invalid nodes that evaluation reaches only on some rows, so the scan fails part-way), SampleRowKeys with identical sampler draws; the normalised responses (status code, rows and cells in order, predicate results, per-entry statuses, table lists and schemas, sampled keys) are compared pairwise; distinct = hash of op shapes; non-trivial = at least one read that failed part-way or was cut by a limit",
		Real:   []string{"bttest handlers on BtreeStorage, LeveldbMemStorage, LeveldbDiskStorage (Rows contract: iteration stops when the callback returns false, range bounds, Clear, Get returns a copy)"},
		Stub:   []string{"gRPC transport", "sampler random source (same draws for the three servers)"},
		Assume: []string{"error message texts and the number of response messages are not compared; for a failed read only the status is compared (how many rows were streamed before the failure is transport-dependent)", "ListTables order is unspecified (sorted)"},
		Run:    runC17,
	})
	expectedProbes["C17"] = []string{"c17.scan_failed_partway", "c17.limit_cut", "c17.drop_all", "c17.recreated_table", "c17.equal", "c17.real_grpc_transport", "c17.bulk_load"}
}

// row keys for the single-row requests: the adversarial short keys plus keys longer than 127 and
// 255 bytes (lengths at which encodings of a key change width)
var c17Keys = append(append([]string(nil), btRowKeys...), strings.Repeat("k", 128), strings.Repeat("k", 127)+"z", strings.Repeat("L", 300))

func runC17(r *Run) {
	cfg := r.T.S("cfg")
	nOps := 3 + cfg.Intn(38)
	rngSeed := uint64(cfg.Intn(1 << 30))
	ps := r.T.S("prog.0")
	var recs [][]int
	for i := 0; i < nOps; i++ {
		recs = append(recs, record(ps, 700).v)
	}
	// every fourth run adds a fourth server: the leveldb memory engine behind a real gRPC
	// connection on a loopback socket (transport fidelity of the direct-call stub)
	names := []string{engBtree, engLdbMem, engLdbDisk}
	if r.Index%4 == 0 {
		names = append(names, engLdbMemGRPC)
		r.Probe("c17.real_grpc_transport")
	}
	traces := make([][]string, len(names))
	var shapes []string
	defer func() { simRng = nil }()
	for wi, engine := range names {
		clk := NewClock(1_700_000_000_000_000, 1_700_000_000_000_000_000)
		simRng = &Stream{name: "rng.local", state: splitmix(rngSeed)}
		w := NewBTWorld(r, engine, clk, "")
		model := newBTModel()
		base := makeC14Gen(r)
		gen := &btGen{fams: []string{"f1", "f2"}, unknown: "g"}
		deleted := map[string]bool{}
		for i := 0; i < nOps; i++ {
			d := &draws{v: recs[i]}
			clk.ServerUs += 1234
			var op btOp
			names := model.tableNames()
			tbl := ""
			if len(names) > 0 {
				tbl = names[d.n(len(names))]
			} else {
				d.n(1)
			}
			kind := d.w(8, 5, 2, 2, 2, 2, 1)
			if tbl == "" {
				kind = 0
			}
			switch kind {
			case 6:
				// bulk load: a few hundred rows in one MutateRows, so that ranges and scans
				// cover far more rows than any internal batch an engine might use
				op = btOp{Kind: "MutateRows", Table: tbl}
				n := 150 + d.n(650) // up to 800 rows: more than any internal batch an engine might use
				for e := 0; e < n; e++ {
					muts := mutList{setCell("f1", "q", 1000, "b")}
					if e%3 == 0 { // a family drop then rewrites some rows and removes others
						muts = append(muts, setCell("f2", "q", 2000, "c"))
					}
					op.Entries = append(op.Entries, entryIn{Key: fmt.Sprintf("a%04d", e), Muts: muts})
				}
				if wi == 0 {
					r.Probe("c17.bulk_load")
				}
			case 0:
				op = base(d, model, i)
			case 1:
				// read with row set, limit, filter
				t := model.Tables[tbl]
				var rows []ORow
				if t != nil {
					rows = t.render()
				}
				var fams []string
				for f := range t.Fams {
					fams = append(fams, f)
				}
				if len(fams) == 0 {
					fams = []string{"f1"}
				}
				sortStrings(fams)
				fg := &filterGen{rows: rows, fams: fams, maxDepth: 2, invalid: true, sample: true}
				op = btOp{Kind: "Read", Table: tbl, Limit: []int64{0, 0, 1, 2}[d.n(4)]}
				if d.n(3) != 0 {
					op.Filter = fg.tree(d, 0, true)
				}
				if d.n(4) == 0 {
					// a range between two bulk-loaded keys
					a, b := d.n(400), d.n(400)
					if a > b {
						a, b = b, a
					}
					op.RowSet = mRowSet{ranges: []mRange{{mBound{1 + d.n(2), fmt.Sprintf("a%04d", a)}, mBound{1 + d.n(2), fmt.Sprintf("a%04d", b)}}}}
				} else if d.n(3) == 0 {
					op.RowSet = mRowSet{ranges: []mRange{{c03BoundOf(d.n(15)), c03BoundOf(d.n(15))}}}
					if d.n(2) == 0 {
						op.RowSet.keys = []string{c17Keys[d.n(len(c17Keys))]}
					}
				}
			case 2:
				op = btOp{Kind: "CAM", Table: tbl, Key: c17Keys[d.n(len(c17Keys))], TrueM: gen.mutations(d, 2, true), FalseM: gen.mutations(d, 2, true)}
				if d.n(2) == 0 {
					op.Pred = &btpb.RowFilter{Filter: &btpb.RowFilter_CellsPerRowOffsetFilter{CellsPerRowOffsetFilter: int32(d.n(3))}}
				}
			case 3:
				op = btOp{Kind: "RMW", Table: tbl, Key: c17Keys[d.n(len(c17Keys))], Rules: genRMWRules(d, gen, r)}
			case 4:
				op = btOp{Kind: "MutateRows", Table: tbl}
				ne := 1 + d.n(3)
				for e := 0; e < 3; e++ {
					en := entryIn{Key: c17Keys[d.n(len(c17Keys))], Muts: gen.mutations(d, 2, true)}
					if e < ne {
						op.Entries = append(op.Entries, en)
					}
				}
			default:
				op = btOp{Kind: "Sample", Table: tbl}
			}
			if op.Kind == "DeleteTable" && model.Tables[op.Table] != nil {
				deleted[op.Table] = true
			}
			if op.Kind == "CreateTable" && deleted[op.Parent+"/tables/"+op.TableID] && wi == 0 {
				r.Probe("c17.recreated_table")
			}
			if op.Kind == "DropAll" && wi == 0 {
				r.Probe("c17.drop_all")
			}
			resp := execOp(w, op)
			model.step(op, resp, clk.ServerUs) // steering only: verdicts belong to the other checks
			norm := resp
			norm.Err, norm.Msgs = "", 0
			if resp.Code != codes.OK && (op.Kind == "Read" || op.Kind == "ReadAll" || op.Kind == "ReadRow") {
				norm.Rows = nil
				if wi == 0 {
					r.Probe("c17.scan_failed_partway")
					r.nontrivial = true
				}
			}
			if op.Kind == "Read" && op.Limit > 0 && int64(len(resp.Rows)) == op.Limit && wi == 0 {
				r.Probe("c17.limit_cut")
				r.nontrivial = true
			}
			traces[wi] = append(traces[wi], fmt.Sprintf("%s => %s", op, jsonStr(norm)))
			if wi == 0 {
				shapes = append(shapes, opShape(op))
			}
			if r.Failed() {
				break
			}
		}
		w.Destroy()
		if r.Failed() {
			return
		}
	}
	for _, s := range shapes {
		r.Mix(s)
	}
	r.Sample = map[string]interface{}{"requests": nOps, "first_ops": firstN(shapes, 12)}
	for i := 0; i < nOps; i++ {
		for a := 0; a < len(names); a++ {
			for b := a + 1; b < len(names); b++ {
				if i < len(traces[a]) && i < len(traces[b]) && traces[a][i] != traces[b][i] {
					kind := "engines-differ"
					if names[b] == engLdbMemGRPC && a == 1 {
						kind = "transport-differs"
					}
					if os.Getenv("VERIF_C17_DEBUG") != "" {
						for j := 2; j <= i; j++ {
							fmt.Fprintf(os.Stderr, "DEBUG %s: %s\nDEBUG %s: %s\n", names[a], shortStr(traces[a][j], 600), names[b], shortStr(traces[b][j], 600))
						}
					}
					r.Fail(kind, "", "request %d of the same program is answered differently:\n  %s: %s\n  %s: %s\n  program so far: %v", i, names[a], shortStr(traces[a][i], 1500), names[b], shortStr(traces[b][i], 1500), firstN(shapes, i+1))
					return
				}
			}
		}
	}
	r.Probe("c17.equal")
}

func shortStr(s string, n int) string {
	if len(s) > n {
		return s[:n] + "..."
	}
	return s
}

func sortStrings(s []string) {
	for i := 1; i < len(s); i++ {
		for j := i; j > 0 && s[j] < s[j-1]; j-- {
			s[j], s[j-1] = s[j-1], s[j]
		}
	}
}

var _ = btapb.Table{}
