package main

import (
	"fmt"

	btpb "cloud.google.com/go/bigtable/apiv2/bigtablepb"
	"strings"

	btapb "cloud.google.com/go/bigtable/admin/apiv2/adminpb"
)

// C14: table / family / row-range administration against the registry model.

func init() {
	register(&PropDef{
		ID: "C14", Level: "exploration", Quick: 10000, Thorough: 500000, QuickCap: 100,
		Rule:   "each run = one engine (disk: clean restarts and kill-images between requests), 1-40 requests over 3 parents (one a string prefix of another) x 4 table ids (one is another id plus a dot and a suffix) mixing CreateTable/DeleteTable/GetTable/ListTables, ModifyColumnFamilies with 1-3 modifications (create/update/drop, failing at position k, drop then re-create), DropRowRange (prefix equal to a key, ending in 0xff, matching nothing; all rows), data requests and bulk loads of 20-150 rows inserted once in key order (a third of them holding two families, so that a family drop rewrites some rows and removes others); one run per engine and batch administers a table of 2100-3000 rows (prefix drops of 1000 rows, family drop, clear); after every request the touched rows, and at a drawn frequency every table's schema and rows, are compared with the registry model; distinct = hash of (engine, op shapes); non-trivial = at least 2 requests. A quarter of the runs are concurrent: 2-3 client tasks x 1-4 requests (create, delete, get, list, add/drop a family, mutate, read, drop a prefix, drop all rows) on ONE table name under the seeded scheduler, the history checked with porcupine against a registry model (AlreadyExists / NotFound / fresh table after re-creation / purged family) while an untouched table must stay listed and intact",
		Real:   []string{"bttest admin handlers (CreateTable, DeleteTable, GetTable, ListTables, ModifyColumnFamilies, DropRowRange)", "data handlers", "all three engines; start-up recovery on disk restarts"},
		Stub:   []string{"gRPC transport (direct calls)", "process kill = directory image between requests"},
		Assume: []string{"NotFound / AlreadyExists are required where the statement names them, any error otherwise", "the order of ListTables is unspecified (sorted before comparing)", "an empty row-key prefix is not sent (unspecified)"},
		Run:    runC14,
	})
	expectedProbes["C14"] = []string{"c14.modify_fail_at_k", "c14.drop_family_with_data", "c14.recreate_table", "c14.drop_prefix_hit", "c14.deleted_table_request", "restart", "c14.concurrent_creates", "c14.overlapping_admin_ops", "c14.porcupine_ok", "c14.bulk_load", "c14.thousands_of_rows"}
}

var c14Parents = []string{"projects/p/instances/i1", "projects/p/instances/i2", "projects/p/instances/i10", "projects/p/instances/i1/tables/t"} // i1 is a string prefix of i10; the last one is a table name used as a parent
var c14IDs = []string{"t", "t2", "u", "t.v2", "t.deleted", "t.table.proto"}                                 // "t.v2": the id of another table plus a dot and a suffix (file names on disk are derived from ids)
var c14Prefixes = []string{"a", "a\x00", "ab", "a\xff", "\xff", "zz", "b", "\x00", "a\x00\x00"}
var c14Fams = []string{"f1", "f2", "g"}

// makeC14Gen returns the admin+data operation generator shared by C14, C08 and C17.
func makeC14Gen(r *Run) func(d *draws, m *btModel, i int) btOp {
	return makeC14GenMix(r, 0)
}

// c14Mixes are operation mixes (swarm): create, delete, get, list, modify, drop-prefix, drop-all,
// mutate, read, read-modify-write. Mix 0 is the general one; the others concentrate on one mechanism so that
// multi-step situations (a clear after an interrupted clear, re-creation after deletion, schema
// changes on populated tables) are reached often.
var c14Mixes = [][]int{
	{5, 2, 2, 2, 6, 3, 1, 8, 2, 2, 1},
	{3, 3, 0, 0, 1, 2, 8, 8, 1, 1, 1},  // clear / delete / re-create heavy
	{2, 1, 1, 0, 12, 2, 1, 8, 1, 4, 1}, // schema heavy
}

func makeC14GenMix(r *Run, mix int) func(d *draws, m *btModel, i int) btOp {
	weights := c14Mixes[mix]
	gen := &btGen{fams: []string{"f1", "f2"}, unknown: "g"}
	deleted := map[string]bool{}
	pickTable := func(d *draws, m *btModel) string {
		// prefer existing tables, sometimes a missing / deleted one
		var names []string
		for _, n := range m.tableNames() {
			if !strings.Contains(n, "/instances/side/") { // tables of a second client (C08)
				names = append(names, n)
			}
		}
		if len(names) > 0 && d.w(6, 1) == 0 {
			return names[d.n(len(names))]
		}
		d.n(1)
		return c14Parents[d.n(3)] + "/tables/" + c14IDs[d.n(len(c14IDs))]
	}
	return func(d *draws, m *btModel, i int) btOp {
		kind := d.w(weights...)
		if len(m.Tables) == 0 && kind != 0 && d.n(4) != 3 {
			kind = 0
		}
		switch kind {
		case 0:
			fams := map[string]*btapb.GcRule{}
			nf := d.w(1, 3, 3)
			for k := 0; k < 2; k++ {
				g := gcRuleGen(d, 0)
				if k < nf {
					fams[c14Fams[k]] = g
				}
			}
			p, id := c14Parents[d.w(9, 3, 6, 1)], c14IDs[d.w(6, 4, 2, 2, 1, 1)]
			if deleted[p+"/tables/"+id] {
				r.Probe("c14.recreate_table")
			}
			return btOp{Kind: "CreateTable", Parent: p, TableID: id, Fams: fams}
		case 1:
			t := pickTable(d, m)
			if m.Tables[t] != nil {
				deleted[t] = true
			}
			return btOp{Kind: "DeleteTable", Table: t}
		case 2:
			return btOp{Kind: "GetTable", Table: pickTable(d, m)}
		case 3:
			return btOp{Kind: "ListTables", Parent: c14Parents[d.n(3)]}
		case 4:
			t := pickTable(d, m)
			nm := 1 + d.w(4, 3, 2)
			var mods []*btapb.ModifyColumnFamiliesRequest_Modification
			for k := 0; k < 3; k++ {
				id := c14Fams[d.n(3)]
				g := gcRuleGen(d, 0)
				mod := &btapb.ModifyColumnFamiliesRequest_Modification{Id: id}
				switch d.w(3, 2, 3) {
				case 0:
					mod.Mod = &btapb.ModifyColumnFamiliesRequest_Modification_Create{Create: &btapb.ColumnFamily{GcRule: g}}
				case 1:
					mod.Mod = &btapb.ModifyColumnFamiliesRequest_Modification_Update{Update: &btapb.ColumnFamily{GcRule: g}}
				case 2:
					mod.Mod = &btapb.ModifyColumnFamiliesRequest_Modification_Drop{Drop: true}
				}
				if k < nm {
					mods = append(mods, mod)
				}
			}
			return btOp{Kind: "Modify", Table: t, Mods: mods}
		case 5:
			return btOp{Kind: "DropPrefix", Table: pickTable(d, m), Prefix: c14Prefixes[d.n(len(c14Prefixes))]}
		case 6:
			return btOp{Kind: "DropAll", Table: pickTable(d, m)}
		case 7:
			t := pickTable(d, m)
			if deleted[t] && m.Tables[t] == nil {
				r.Probe("c14.deleted_table_request")
			}
			// data request with families the table may or may not have
			gen.fams = []string{"f1", "f2"}
			return btOp{Kind: "MutateRow", Table: t, Key: btRowKeys[d.n(len(btRowKeys))], Muts: gen.mutations(d, 3, false)}
		case 9:
			// cells written by ReadModifyWriteRow only (a family may hold nothing else)
			t := pickTable(d, m)
			fam := c14Fams[d.n(3)]
			rule := &btpb.ReadModifyWriteRule{FamilyName: fam, ColumnQualifier: []byte("n"), Rule: &btpb.ReadModifyWriteRule_IncrementAmount{IncrementAmount: 1}}
			if d.n(2) == 1 {
				rule = &btpb.ReadModifyWriteRule{FamilyName: fam, ColumnQualifier: []byte("a"), Rule: &btpb.ReadModifyWriteRule_AppendValue{AppendValue: []byte("x")}}
			}
			return btOp{Kind: "RMW", Table: t, Key: btRowKeys[d.n(len(btRowKeys))], Rules: []*btpb.ReadModifyWriteRule{rule}}
		case 10:
			// bulk load: enough rows, each inserted once and in key order, that the engines' internal
			// structures (tree nodes that fill up, iterator batches) matter to what follows; every
			// third row also holds a cell of the second family, so a family drop rewrites some rows
			// and removes others
			t := pickTable(d, m)
			op := btOp{Kind: "MutateRows", Table: t}
			n := 20 + d.n(130)
			for e := 0; e < n; e++ {
				muts := mutList{setCell("f1", "q", 1000, "b")}
				if e%3 == 0 {
					muts = append(muts, setCell("f2", "q", 2000, "c"))
				}
				op.Entries = append(op.Entries, entryIn{Key: fmt.Sprintf("b%03d", e), Muts: muts})
			}
			r.Probe("c14.bulk_load")
			return op
		default:
			t := pickTable(d, m)
			return btOp{Kind: "ReadAll", Table: t}
		}
	}
}

func runC14(r *Run) {
	cfg := r.T.S("cfg")
	if (r.Index >= 12 && r.Index < 15) || (r.Tier == "thorough" && r.Index%4000 < 3) {
		// one run per engine and batch: administration of a table holding thousands of rows
		// (more than any internal batch size), state compared after every request
		engine := []string{engBtree, engLdbMem, engLdbDisk}[r.Index%3]
		clk := NewClock(1_700_000_000_000_000, 1_700_000_000_000_000_000)
		const tbl = "projects/p/instances/i1/tables/t"
		script := []btOp{{Kind: "CreateTable", Parent: "projects/p/instances/i1", TableID: "t", Fams: map[string]*btapb.GcRule{"f1": nil, "f2": nil}}}
		nRows := 2100 + cfg.Intn(900)
		for from := 0; from < nRows; from += 450 {
			op := btOp{Kind: "MutateRows", Table: tbl}
			for e := from; e < from+450 && e < nRows; e++ {
				muts := mutList{setCell("f1", "q", 1000, "b")}
				if e%3 == 0 {
					muts = append(muts, setCell("f2", "q", 2000, "c"))
				}
				op.Entries = append(op.Entries, entryIn{Key: fmt.Sprintf("b%04d", e), Muts: muts})
			}
			script = append(script, op)
		}
		drop := func(f string) btOp {
			return btOp{Kind: "Modify", Table: tbl, Mods: []*btapb.ModifyColumnFamiliesRequest_Modification{{Id: f, Mod: &btapb.ModifyColumnFamiliesRequest_Modification_Drop{Drop: true}}}}
		}
		// drop f2 rewrites every third row; "b0" matches exactly 1000 rows, "b" the 1100-2000 that
		// remain; then 1200 rows that hold nothing but f1, and f1 is dropped: every row goes
		script = append(script, drop("f2"), btOp{Kind: "ReadAll", Table: tbl},
			btOp{Kind: "DropPrefix", Table: tbl, Prefix: "b0"}, btOp{Kind: "ReadAll", Table: tbl},
			btOp{Kind: "DropPrefix", Table: tbl, Prefix: "b"}, btOp{Kind: "ReadAll", Table: tbl})
		for from := 0; from < 1200; from += 400 {
			op := btOp{Kind: "MutateRows", Table: tbl}
			for e := from; e < from+400; e++ {
				op.Entries = append(op.Entries, entryIn{Key: fmt.Sprintf("c%04d", e), Muts: mutList{setCell("f1", "q", 1000, "b")}})
			}
			script = append(script, op)
		}
		nLoad := len(script)
		script = append(script, btOp{Kind: "DropAll", Table: tbl}, btOp{Kind: "ReadAll", Table: tbl}) // clears 1200 rows
		script = append(script, script[nLoad-3:nLoad]...)                                             // the same 1200 rows again
		script = append(script, drop("f1"), btOp{Kind: "ReadAll", Table: tbl})
		r.Probe("c14.thousands_of_rows")
		res := runBTSeq(r, seqSpec{Engine: engine, NOps: len(script), FullEvery: 1, Restarts: true,
			Gen: func(d *draws, m *btModel, i int) btOp { return script[i] }}, clk)
		r.Sample = map[string]interface{}{"mode": "large-table", "engine": engine, "rows": nRows, "requests": len(res.Shapes)}
		return
	}
	if cfg.Intn(4) == 3 || (r.Index >= 3 && r.Index < 12) {
		c14Concurrent(r, cfg)
		return
	}
	engine := pickEngine(r, cfg)
	nOps := 1 + cfg.Intn(40)
	clk := NewClock(1_700_000_000_000_000, 1_700_000_000_000_000_000)
	spec := seqSpec{
		Engine: engine, NOps: nOps, FullEvery: []int{1, 4, 9}[cfg.Intn(3)], Restarts: true,
		Gen: makeC14Gen(r),
		AfterOp: func(op btOp, resp btResp, before, after *btModel) {
			bt := before.Tables[op.Table]
			switch op.Kind {
			case "Modify":
				if bt != nil && !resp.ok() && len(op.Mods) > 1 {
					r.Probe("c14.modify_fail_at_k")
				}
				if bt != nil && resp.ok() {
					for _, m := range op.Mods {
						if m.GetDrop() {
							for _, row := range bt.Rows {
								if len(row[m.Id]) > 0 {
									r.Probe("c14.drop_family_with_data")
								}
							}
						}
					}
				}
			case "DropPrefix":
				if bt != nil && len(bt.Rows) != len(after.Tables[op.Table].Rows) {
					r.Probe("c14.drop_prefix_hit")
				}
			}
		},
	}
	res := runBTSeq(r, spec, clk)
	r.Sample = map[string]interface{}{"engine": engine, "requests": len(res.Shapes), "first_ops": firstN(res.Shapes, 10)}
}
