package main

import (
	"context"
	"fmt"
	"google.golang.org/grpc"
	"os"
	"path/filepath"
	"sort"
	"time"

	"cloud.google.com/go/bigtable"
	btapb "cloud.google.com/go/bigtable/admin/apiv2/adminpb"
	btpb "cloud.google.com/go/bigtable/apiv2/bigtablepb"
	"github.com/fullstorydev/emulators/bigtable/bttest"
	"google.golang.org/grpc/codes"
	"google.golang.org/grpc/metadata"
	"google.golang.org/grpc/status"
	"google.golang.org/protobuf/proto"
)

// BTWorld is one Bigtable emulator instance inside the simulator: the real service
// implementation behind direct calls, with the storage engine wrapped by a yielding
// pass-through, a simulator-owned clock, and the stream argument as the transport seam.

const (
	engBtree   = "btree"
	engLdbMem  = "leveldb-mem"
	engLdbDisk = "leveldb-disk"
)

var engines = []string{engLdbMem, engBtree, engLdbDisk}

type BTWorld struct {
	r      *Run
	Engine string
	Clk    *Clock
	svc    *bttest.VerifService
	srv    *bttest.Server
	Dir    string // root directory of the disk engine
	ErrLog []string
	// transport faults
	SendFail func(kind string, n int) bool // return true to fail the n-th Send of a stream
	// LazySend: the transport keeps the message it was handed and serialises it only when the
	// handler has returned (gRPC: "it is not safe to modify the message after calling SendMsg;
	// tracing libraries and stats handlers may use the message lazily").
	LazySend bool
	// SendGate runs inside the n-th Send of a ReadRows stream after the message was taken: a
	// consumer that does something else (e.g. a write) before it reads on (flow control).
	SendGate  func(n int)
	SendYield bool
	closed    bool
	rows      []*yRows // every engine handle handed out (closed at Destroy)
	// set for the gRPC transport world: requests go through a real loopback connection
	rdata  btpb.BigtableServer
	radmin btapb.BigtableTableAdminServer
	conn   *grpc.ClientConn
}

func scratchDir(prefix string) string {
	base := os.Getenv("VERIF_SCRATCH_DIR")
	if base == "" {
		base = scratchRoot()
	}
	d, err := os.MkdirTemp(base, prefix)
	if err != nil {
		harnessErr("mkdtemp: %v", err)
	}
	return d
}

// NewBTWorld builds a world. For the disk engine dir may name an existing directory (restart).
func NewBTWorld(r *Run, engine string, clk *Clock, dir string) *BTWorld {
	w := &BTWorld{r: r, Engine: engine, Clk: clk, Dir: dir}
	simClk = clk
	opt := bttest.Options{Clock: func() bigtable.Timestamp {
		// a server clock that moves on between two looks at it (ServerTick > 0): a request
		// that consults it more than once sees different instants
		v := clk.ServerUs
		if clk.ServerTick != 0 { // (never in the real-goroutine supplement: no write here)
			clk.ServerUs += clk.ServerTick
		}
		return bigtable.Timestamp(v)
	}}
	switch engine {
	case engBtree:
		opt.Storage = yStorage{bttest.BtreeStorage{}, &w.rows}
		w.svc = bttest.VerifNewMemService(opt)
	case engLdbMem:
		opt.Storage = yStorage{bttest.LeveldbMemStorage{}, &w.rows}
		w.svc = bttest.VerifNewMemService(opt)
	case engLdbDisk:
		if w.Dir == "" {
			w.Dir = scratchDir("bt-")
		}
		opt.Storage = yStorage{bttest.LeveldbDiskStorage{Root: w.Dir, ErrLog: func(err error, msg string) {
			w.ErrLog = append(w.ErrLog, fmt.Sprintf("%s: %v", msg, err))
		}}, &w.rows}
		srv, err := bttest.NewServerWithOptions("127.0.0.1:0", opt)
		if err != nil {
			harnessErr("NewServerWithOptions: %v", err)
		}
		w.srv = srv
		w.svc = srv.VerifService()
	case engLdbMemGRPC:
		// the transport world also runs the engine WITHOUT the harness's pass-through wrapper:
		// optional interfaces of the engine (anything the server discovers by type assertion on
		// Storage / Rows) are hidden by a wrapper, and code paths behind them would never run
		opt.Storage = bttest.LeveldbMemStorage{}
		srv, err := bttest.NewServerWithOptions("127.0.0.1:0", opt)
		if err != nil {
			harnessErr("NewServerWithOptions: %v", err)
		}
		w.srv = srv
		w.svc = srv.VerifService()
		w.conn = dialLoopback(srv.Addr)
		w.rdata = &remoteData{c: btpb.NewBigtableClient(w.conn)}
		w.radmin = &remoteAdmin{c: btapb.NewBigtableTableAdminClient(w.conn)}
	default:
		harnessErr("unknown engine %q", engine)
	}
	return w
}

func (w *BTWorld) data() btpb.BigtableServer {
	if w.rdata != nil {
		return w.rdata
	}
	return w.svc.Data()
}

func (w *BTWorld) admin() btapb.BigtableTableAdminServer {
	if w.radmin != nil {
		return w.radmin
	}
	return w.svc.Admin()
}

// Close shuts the instance down cleanly (the disk directory is kept).
func (w *BTWorld) Close() {
	if w.closed {
		return
	}
	w.closed = true
	if w.conn != nil {
		w.conn.Close()
	}
	// After a handler has panicked in the middle of an engine operation, closing the engine can
	// wait for ever (goleveldb waits for the writer that will never finish). The instance is
	// dead either way: give the close a few seconds, then abandon it (the worker process is
	// recycled after a bounded number of runs).
	done := make(chan struct{})
	var perr interface{}
	go func() {
		defer close(done)
		defer func() { perr = recover() }()
		if w.srv != nil {
			w.srv.Close()
		} else {
			w.svc.CloseMem()
		}
	}()
	select {
	case <-done:
		if perr != nil {
			panic(perr) // e.g. a lock still held at the end of the run (leaked-lock verdict)
		}
	case <-time.After(5 * time.Second):
		w.rows = nil // their Close would block the same way
	}
	// The process is gone: so are the engine handles the server never closes (those of deleted
	// tables) together with the file locks they hold.
	for _, yr := range w.rows {
		if !yr.closed {
			yr.closed = true
			func() {
				defer func() { recover() }()
				yr.in.Close()
			}()
		}
	}
	w.rows = nil
}

func (w *BTWorld) Destroy() {
	w.Close()
	if w.Dir != "" {
		os.RemoveAll(w.Dir)
	}
}

// ---- yielding storage pass-through ----------------------------------------------------------

// yStorage also remembers every Rows it handed out: the server never closes the engine handle
// of a deleted table, so the world closes what is still open when it is destroyed (a worker
// process runs thousands of worlds).
type yStorage struct {
	in  bttest.Storage
	all *[]*yRows
}

func (s yStorage) track(r *yRows) *yRows {
	if s.all != nil {
		*s.all = append(*s.all, r)
	}
	return r
}

func (s yStorage) Create(t *btapb.Table) bttest.Rows {
	hookYield("stor.Create")
	return s.track(&yRows{in: s.in.Create(t)})
}
func (s yStorage) GetTables() []*btapb.Table { hookYield("stor.GetTables"); return s.in.GetTables() }
func (s yStorage) Open(t *btapb.Table) bttest.Rows {
	hookYield("stor.Open")
	return s.track(&yRows{in: s.in.Open(t)})
}
func (s yStorage) SetTableMeta(t *btapb.Table) { hookYield("stor.SetTableMeta"); s.in.SetTableMeta(t) }

// DeleteTable is forwarded when the engine offers it (optional interface).
func (s yStorage) DeleteTable(t *btapb.Table) {
	hookYield("stor.DeleteTable")
	if d, ok := s.in.(interface{ DeleteTable(*btapb.Table) }); ok {
		d.DeleteTable(t)
	}
}

type yRows struct {
	in     bttest.Rows
	closed bool
}

func yIter(it bttest.RowIterator) bttest.RowIterator {
	return func(r *btpb.Row) bool {
		hookYield("rows.iter")
		return it(r)
	}
}
func (r *yRows) Ascend(it bttest.RowIterator) { hookYield("rows.Ascend"); r.in.Ascend(yIter(it)) }
func (r *yRows) AscendRange(a, b []byte, it bttest.RowIterator) {
	hookYield("rows.AscendRange")
	r.in.AscendRange(a, b, yIter(it))
}
func (r *yRows) AscendLessThan(b []byte, it bttest.RowIterator) {
	hookYield("rows.AscendLessThan")
	r.in.AscendLessThan(b, yIter(it))
}
func (r *yRows) AscendGreaterOrEqual(a []byte, it bttest.RowIterator) {
	hookYield("rows.AscendGE")
	r.in.AscendGreaterOrEqual(a, yIter(it))
}
func (r *yRows) Clear()                      { hookYield("rows.Clear"); r.in.Clear() }
func (r *yRows) Delete(k []byte)             { hookYield("rows.Delete"); r.in.Delete(k) }
func (r *yRows) Get(k []byte) *btpb.Row      { hookYield("rows.Get"); return r.in.Get(k) }
func (r *yRows) ReplaceOrInsert(x *btpb.Row) { hookYield("rows.Put"); r.in.ReplaceOrInsert(x) }
func (r *yRows) Close()                      { r.closed = true; r.in.Close() }

// ---- wire round trip ------------------------------------------------------------------------

func wire(m proto.Message, into proto.Message) {
	b, err := proto.Marshal(m)
	if err != nil {
		harnessErr("marshal: %v", err)
	}
	if err := proto.Unmarshal(b, into); err != nil {
		harnessErr("unmarshal: %v", err)
	}
}

func codeOf(err error) codes.Code {
	if err == nil {
		return codes.OK
	}
	return status.Code(err)
}

// ---- streams --------------------------------------------------------------------------------

type baseStream struct{ ctx context.Context }

func (b baseStream) SetHeader(metadata.MD) error  { return nil }
func (b baseStream) SendHeader(metadata.MD) error { return nil }
func (b baseStream) SetTrailer(metadata.MD)       {}
func (b baseStream) Context() context.Context {
	if b.ctx == nil {
		return context.Background()
	}
	return b.ctx
}
func (b baseStream) SendMsg(interface{}) error { return nil }
func (b baseStream) RecvMsg(interface{}) error { return nil }

type readStream struct {
	baseStream
	w    *BTWorld
	msgs []*btpb.ReadRowsResponse
	lazy []*btpb.ReadRowsResponse
	// stamps: scheduler step at which each message was sent
	steps []int
}

func (s *readStream) Send(m *btpb.ReadRowsResponse) error {
	n := len(s.msgs)
	if s.w.SendFail != nil && s.w.SendFail("ReadRows", n) {
		s.w.r.Fault("send_error")
		return status.Error(codes.Unavailable, "simulated: client went away")
	}
	// gRPC serialises inside Send, then the transport may take its time.
	if s.w.LazySend {
		s.lazy = append(s.lazy, m)
		s.msgs = append(s.msgs, nil)
	} else {
		c := &btpb.ReadRowsResponse{}
		wire(m, c)
		s.msgs = append(s.msgs, c)
	}
	if simS != nil {
		s.steps = append(s.steps, simS.Steps)
	}
	hookYield("stream.Send")
	if s.w.SendGate != nil {
		s.w.SendGate(n)
	}
	return nil
}

// settle serialises the messages a lazy transport kept.
func (s *readStream) settle() {
	for i, m := range s.lazy {
		c := &btpb.ReadRowsResponse{}
		wire(m, c)
		s.msgs[i] = c
	}
	s.lazy = nil
}

type mutateStream struct {
	baseStream
	w    *BTWorld
	msgs []*btpb.MutateRowsResponse
}

func (s *mutateStream) Send(m *btpb.MutateRowsResponse) error {
	if s.w.SendFail != nil && s.w.SendFail("MutateRows", len(s.msgs)) {
		s.w.r.Fault("send_error")
		return status.Error(codes.Unavailable, "simulated: client went away")
	}
	c := &btpb.MutateRowsResponse{}
	wire(m, c)
	s.msgs = append(s.msgs, c)
	hookYield("stream.Send")
	return nil
}

type sampleStream struct {
	baseStream
	w    *BTWorld
	msgs []*btpb.SampleRowKeysResponse
}

func (s *sampleStream) Send(m *btpb.SampleRowKeysResponse) error {
	if s.w.SendFail != nil && s.w.SendFail("SampleRowKeys", len(s.msgs)) {
		s.w.r.Fault("send_error")
		return status.Error(codes.Unavailable, "simulated: client went away")
	}
	c := &btpb.SampleRowKeysResponse{}
	wire(m, c)
	s.msgs = append(s.msgs, c)
	hookYield("stream.Send")
	return nil
}

// ---- chunk stream decoder (standard ReadRows state machine) ----------------------------------

// decodeChunks turns response messages into rows; a malformed stream is returned as an error.
func decodeChunks(msgs []*btpb.ReadRowsResponse) ([]ORow, error) {
	var rows []ORow
	var cur *ORow
	var fam, qual string
	haveFam, haveQual := false, false
	for mi, m := range msgs {
		for ci, ch := range m.Chunks {
			where := fmt.Sprintf("message %d chunk %d", mi, ci)
			if ch.GetResetRow() {
				return rows, fmt.Errorf("%s: unexpected reset_row", where)
			}
			if cur == nil {
				if len(ch.RowKey) == 0 {
					return rows, fmt.Errorf("%s: chunk outside a row (no row key)", where)
				}
				cur = &ORow{Key: string(ch.RowKey)}
				haveFam, haveQual = false, false
				if ch.FamilyName == nil || ch.Qualifier == nil {
					return rows, fmt.Errorf("%s: first chunk of row %q lacks family or qualifier", where, ch.RowKey)
				}
			} else if len(ch.RowKey) != 0 && string(ch.RowKey) != cur.Key {
				return rows, fmt.Errorf("%s: row key %q inside uncommitted row %q", where, ch.RowKey, cur.Key)
			}
			if ch.FamilyName != nil {
				fam, haveFam = ch.FamilyName.Value, true
				if ch.Qualifier == nil {
					return rows, fmt.Errorf("%s: new family without qualifier", where)
				}
			}
			if ch.Qualifier != nil {
				qual, haveQual = string(ch.Qualifier.Value), true
			}
			if !haveFam || !haveQual {
				return rows, fmt.Errorf("%s: cell without family/qualifier", where)
			}
			if ch.ValueSize != 0 {
				return rows, fmt.Errorf("%s: split cell values are not expected (value_size=%d)", where, ch.ValueSize)
			}
			cur.Cells = append(cur.Cells, OCell{Fam: fam, Qual: qual, Ts: ch.TimestampMicros, Val: string(ch.Value), Labels: append([]string(nil), ch.Labels...)})
			if ch.GetCommitRow() {
				rows = append(rows, *cur)
				cur = nil
			}
		}
	}
	if cur != nil {
		return rows, fmt.Errorf("stream ended inside row %q (no commit)", cur.Key)
	}
	return rows, nil
}

// checkRowShape enforces the data-model shape of one row: each family once, qualifiers strictly
// ascending inside a family, timestamps strictly descending inside a column (unless dupOK, for
// interleave filters), at least one cell.
func checkRowShape(r ORow, dupOK bool) error {
	if len(r.Cells) == 0 {
		return fmt.Errorf("row %q has no cells", r.Key)
	}
	seenFam := map[string]bool{}
	for i, c := range r.Cells {
		if i == 0 || c.Fam != r.Cells[i-1].Fam {
			if seenFam[c.Fam] {
				return fmt.Errorf("row %q: family %q appears twice", r.Key, c.Fam)
			}
			seenFam[c.Fam] = true
			continue
		}
		p := r.Cells[i-1]
		if c.Qual < p.Qual {
			return fmt.Errorf("row %q family %q: qualifier %q after %q", r.Key, c.Fam, c.Qual, p.Qual)
		}
		if c.Qual == p.Qual {
			if c.Ts > p.Ts || (c.Ts == p.Ts && !dupOK) {
				return fmt.Errorf("row %q column %s:%q: timestamp %d after %d", r.Key, c.Fam, c.Qual, c.Ts, p.Ts)
			}
		}
	}
	return nil
}

// ---- calls ----------------------------------------------------------------------------------

func (w *BTWorld) yieldMarshal() { hookYield("grpc.marshal") }

func (w *BTWorld) MutateRow(table string, key string, muts []*btpb.Mutation) error {
	req := &btpb.MutateRowRequest{}
	wire(&btpb.MutateRowRequest{TableName: table, RowKey: []byte(key), Mutations: muts}, req)
	resp, err := w.data().MutateRow(context.Background(), req)
	w.yieldMarshal()
	if err == nil {
		wire(resp, &btpb.MutateRowResponse{})
	}
	return err
}

type entryIn struct {
	Key  string
	Muts []*btpb.Mutation
}

// MutateRows returns per-entry status codes (by index) and the stream's final error.
func (w *BTWorld) MutateRows(table string, entries []entryIn) ([]codes.Code, error) {
	in := &btpb.MutateRowsRequest{TableName: table}
	for _, e := range entries {
		in.Entries = append(in.Entries, &btpb.MutateRowsRequest_Entry{RowKey: []byte(e.Key), Mutations: e.Muts})
	}
	req := &btpb.MutateRowsRequest{}
	wire(in, req)
	st := &mutateStream{w: w}
	err := w.data().MutateRows(req, st)
	if err != nil {
		return nil, err
	}
	cs := make([]codes.Code, len(entries))
	seen := make([]bool, len(entries))
	for _, m := range st.msgs {
		for _, e := range m.Entries {
			if e.Index < 0 || int(e.Index) >= len(entries) {
				return nil, fmt.Errorf("MALFORMED: entry index %d out of range", e.Index)
			}
			if seen[e.Index] {
				return nil, fmt.Errorf("MALFORMED: entry index %d reported twice", e.Index)
			}
			seen[e.Index] = true
			cs[e.Index] = codes.Code(e.GetStatus().GetCode())
		}
	}
	for i, s := range seen {
		if !s {
			return nil, fmt.Errorf("MALFORMED: no status for entry %d", i)
		}
	}
	return cs, nil
}

type readResult struct {
	Rows  []ORow
	Msgs  int
	Err   error // final status of the stream
	Bad   error // malformed stream
	Steps []int
}

func (w *BTWorld) ReadRows(req *btpb.ReadRowsRequest) readResult {
	r2 := &btpb.ReadRowsRequest{}
	wire(req, r2)
	st := &readStream{w: w}
	err := w.data().ReadRows(r2, st)
	st.settle()
	rows, bad := decodeChunks(st.msgs)
	if err != nil && bad != nil {
		bad = nil // a failed stream may end anywhere
	}
	return readResult{Rows: rows, Msgs: len(st.msgs), Err: err, Bad: bad, Steps: st.steps}
}

func (w *BTWorld) ReadAll(table string) readResult {
	return w.ReadRows(&btpb.ReadRowsRequest{TableName: table})
}

func (w *BTWorld) ReadRow(table, key string) readResult {
	return w.ReadRows(&btpb.ReadRowsRequest{TableName: table, Rows: &btpb.RowSet{RowKeys: [][]byte{[]byte(key)}}})
}

func (w *BTWorld) CheckAndMutate(table, key string, pred *btpb.RowFilter, tm, fm []*btpb.Mutation) (bool, error) {
	req := &btpb.CheckAndMutateRowRequest{}
	wire(&btpb.CheckAndMutateRowRequest{TableName: table, RowKey: []byte(key), PredicateFilter: pred, TrueMutations: tm, FalseMutations: fm}, req)
	resp, err := w.data().CheckAndMutateRow(context.Background(), req)
	w.yieldMarshal()
	if err != nil {
		return false, err
	}
	out := &btpb.CheckAndMutateRowResponse{}
	wire(resp, out)
	return out.PredicateMatched, nil
}

func (w *BTWorld) RMW(table, key string, rules []*btpb.ReadModifyWriteRule) (*ORow, error) {
	req := &btpb.ReadModifyWriteRowRequest{}
	wire(&btpb.ReadModifyWriteRowRequest{TableName: table, RowKey: []byte(key), Rules: rules}, req)
	resp, err := w.data().ReadModifyWriteRow(context.Background(), req)
	w.yieldMarshal()
	if err != nil {
		return nil, err
	}
	out := &btpb.ReadModifyWriteRowResponse{}
	wire(resp, out)
	o := &ORow{}
	if out.Row != nil {
		o.Key = string(out.Row.Key)
		for _, f := range out.Row.Families {
			for _, c := range f.Columns {
				for _, cell := range c.Cells {
					o.Cells = append(o.Cells, OCell{Fam: f.Name, Qual: string(c.Qualifier), Ts: cell.TimestampMicros, Val: string(cell.Value), Labels: cell.Labels})
				}
			}
		}
	}
	return o, nil
}

func (w *BTWorld) SampleRowKeys(table string) ([]*btpb.SampleRowKeysResponse, error) {
	st := &sampleStream{w: w}
	err := w.data().SampleRowKeys(&btpb.SampleRowKeysRequest{TableName: table}, st)
	return st.msgs, err
}

// ---- admin ----------------------------------------------------------------------------------

func (w *BTWorld) CreateTable(parent, id string, fams map[string]*btapb.GcRule) (*btapb.Table, error) {
	t := &btapb.Table{ColumnFamilies: map[string]*btapb.ColumnFamily{}}
	for f, g := range fams {
		t.ColumnFamilies[f] = &btapb.ColumnFamily{GcRule: g}
	}
	req := &btapb.CreateTableRequest{}
	wire(&btapb.CreateTableRequest{Parent: parent, TableId: id, Table: t}, req)
	resp, err := w.admin().CreateTable(context.Background(), req)
	w.yieldMarshal()
	if err != nil {
		return nil, err
	}
	out := &btapb.Table{}
	wire(resp, out)
	return out, nil
}

func (w *BTWorld) GetTable(name string) (*btapb.Table, error) {
	resp, err := w.admin().GetTable(context.Background(), &btapb.GetTableRequest{Name: name})
	w.yieldMarshal()
	if err != nil {
		return nil, err
	}
	out := &btapb.Table{}
	wire(resp, out)
	return out, nil
}

func (w *BTWorld) ListTables(parent string) ([]string, error) {
	return w.ListTablesView(parent, btapb.Table_VIEW_UNSPECIFIED)
}

func (w *BTWorld) ListTablesView(parent string, view btapb.Table_View) ([]string, error) {
	resp, err := w.admin().ListTables(context.Background(), &btapb.ListTablesRequest{Parent: parent, View: view})
	w.yieldMarshal()
	if err != nil {
		return nil, err
	}
	out := &btapb.ListTablesResponse{}
	wire(resp, out)
	var names []string
	for _, t := range out.Tables {
		names = append(names, t.Name)
	}
	sort.Strings(names) // the order of ListTables is unspecified
	return names, nil
}

func (w *BTWorld) DeleteTable(name string) error {
	_, err := w.admin().DeleteTable(context.Background(), &btapb.DeleteTableRequest{Name: name})
	w.yieldMarshal()
	return err
}

func (w *BTWorld) ModifyFamilies(name string, mods []*btapb.ModifyColumnFamiliesRequest_Modification) (*btapb.Table, error) {
	req := &btapb.ModifyColumnFamiliesRequest{}
	wire(&btapb.ModifyColumnFamiliesRequest{Name: name, Modifications: mods}, req)
	resp, err := w.admin().ModifyColumnFamilies(context.Background(), req)
	w.yieldMarshal()
	if err != nil {
		return nil, err
	}
	out := &btapb.Table{}
	wire(resp, out)
	return out, nil
}

func (w *BTWorld) DropRowRange(name string, prefix []byte, all bool) error {
	req := &btapb.DropRowRangeRequest{Name: name}
	if all {
		req.Target = &btapb.DropRowRangeRequest_DeleteAllDataFromTable{DeleteAllDataFromTable: true}
	} else {
		req.Target = &btapb.DropRowRangeRequest_RowKeyPrefix{RowKeyPrefix: prefix}
	}
	r2 := &btapb.DropRowRangeRequest{}
	wire(req, r2)
	_, err := w.admin().DropRowRange(context.Background(), r2)
	w.yieldMarshal()
	return err
}

func (w *BTWorld) GC(table string, force bool) bool { return w.svc.GC(table, force) }

// Settle makes every engine handle finish its background work (goleveldb: write buffer flushed,
// tables compacted): what the next iterator finds in memory and what in table files then no
// longer depends on the timing of goleveldb's background goroutines.
func (w *BTWorld) Settle() {
	for _, yr := range w.rows {
		if !yr.closed {
			bttest.VerifSettle(yr.in)
		}
	}
}

// famsOf extracts family -> rule from a table definition.
func famsOf(t *btapb.Table) map[string]*btapb.GcRule {
	m := map[string]*btapb.GcRule{}
	for f, cf := range t.GetColumnFamilies() {
		m[f] = cf.GetGcRule()
	}
	return m
}

func dirSize(root string) int {
	n := 0
	filepath.Walk(root, func(string, os.FileInfo, error) error { n++; return nil })
	return n
}
