package main

import (
	"fmt"
	"math"
	"regexp"
	"sort"
	"strings"

	btpb "cloud.google.com/go/bigtable/apiv2/bigtablepb"
)

// Reference evaluator for row filters, written from the statement of C05 (DESIGN.md A.2).
// Input and output are cell lists in row order (family groups, qualifiers ascending,
// timestamps descending).

type fEval struct {
	// decisions of row-sample nodes in visit order; a missing entry means "row passes"
	sampleBits  []bool
	sampleVisit int
	// an invalid node was reached while cells were flowing: the request must fail
	required    bool
	requiredMsg string
	// an invalid (or either-way) node exists but was not reached with cells: the request may
	// fail with InvalidArgument or succeed
	permitted bool
}

var labelRe = regexp.MustCompile(`^[a-z0-9\-]{1,15}$`)

// knownBad: regex patterns the oracle knows to be invalid; every other pattern it meets was
// produced by genRx and carries its own matcher in rxTable.
var rxTable = map[string]*rx{}

func registerRx(r *rx) []byte {
	p := r.pattern()
	rxTable[string(p)] = r
	return p
}

func isBadRegex(p []byte) bool {
	for _, b := range badRegexes {
		if string(p) == b {
			return true
		}
	}
	return false
}

func rxMatch(p []byte, field string) bool {
	r := rxTable[string(p)]
	if r == nil {
		harnessErr("oracle met a regex it did not generate: %q", p)
	}
	return r.match([]byte(field))
}

// staticInvalid reports whether the tree contains a node that is invalid or whose validity the
// statement leaves open.
func staticInvalid(f *btpb.RowFilter) bool {
	if f == nil {
		return false
	}
	e := &fEval{}
	switch x := f.Filter.(type) {
	case *btpb.RowFilter_Chain_:
		if len(x.Chain.Filters) < 2 {
			return true
		}
		for _, s := range x.Chain.Filters {
			if staticInvalid(s) {
				return true
			}
		}
		return false
	case *btpb.RowFilter_Interleave_:
		if len(x.Interleave.Filters) < 2 {
			return true
		}
		for _, s := range x.Interleave.Filters {
			if staticInvalid(s) {
				return true
			}
		}
		return false
	case *btpb.RowFilter_Condition_:
		return staticInvalid(x.Condition.PredicateFilter) || staticInvalid(x.Condition.TrueFilter) || staticInvalid(x.Condition.FalseFilter)
	}
	// leaves: evaluate on a dummy cell
	e.eval(f, "k", []OCell{{Fam: "f", Qual: "q", Ts: 1000, Val: "v"}})
	return e.required || e.permitted
}

// staticRequired reports whether the tree contains a node that is invalid for certain (one of
// the arguments the statement lists: negative counts, false pass/block flags, fewer than two
// sub-filters, sample probability outside (0,1), bad regex, sub-millisecond timestamp bounds).
// Such a filter must be refused whatever the table holds - "rejected, never ignored".
func staticRequired(f *btpb.RowFilter) bool {
	if f == nil {
		return false
	}
	switch x := f.Filter.(type) {
	case *btpb.RowFilter_Chain_:
		if len(x.Chain.Filters) < 2 {
			return true
		}
		for _, s := range x.Chain.Filters {
			if staticRequired(s) {
				return true
			}
		}
		return false
	case *btpb.RowFilter_Interleave_:
		if len(x.Interleave.Filters) < 2 {
			return true
		}
		for _, s := range x.Interleave.Filters {
			if staticRequired(s) {
				return true
			}
		}
		return false
	case *btpb.RowFilter_Condition_:
		return staticRequired(x.Condition.PredicateFilter) || staticRequired(x.Condition.TrueFilter) || staticRequired(x.Condition.FalseFilter)
	}
	e := &fEval{}
	e.eval(f, "k", []OCell{{Fam: "f", Qual: "q", Ts: 1000, Val: "v"}})
	return e.required
}

func (e *fEval) invalid(format string, a ...interface{}) []OCell {
	if !e.required {
		e.required = true
		e.requiredMsg = fmt.Sprintf(format, a...)
	}
	return nil
}

func (e *fEval) eval(f *btpb.RowFilter, key string, cells []OCell) []OCell {
	if f == nil {
		return cells
	}
	if len(cells) == 0 {
		// nothing flows into this node: whether an implementation validates it is its choice
		if staticInvalid(f) {
			e.permitted = true
		}
		return nil
	}
	keep := func(pred func(c OCell) bool) []OCell {
		var out []OCell
		for _, c := range cells {
			if pred(c) {
				out = append(out, c)
			}
		}
		return out
	}
	switch x := f.Filter.(type) {
	case *btpb.RowFilter_PassAllFilter:
		if !x.PassAllFilter {
			return e.invalid("pass_all_filter=false")
		}
		return cells
	case *btpb.RowFilter_BlockAllFilter:
		if !x.BlockAllFilter {
			return e.invalid("block_all_filter=false")
		}
		return nil
	case *btpb.RowFilter_RowKeyRegexFilter:
		if isBadRegex(x.RowKeyRegexFilter) {
			return e.invalid("bad row key regex %q", x.RowKeyRegexFilter)
		}
		if rxMatch(x.RowKeyRegexFilter, key) {
			return cells
		}
		return nil
	case *btpb.RowFilter_FamilyNameRegexFilter:
		if isBadRegex([]byte(x.FamilyNameRegexFilter)) {
			return e.invalid("bad family regex %q", x.FamilyNameRegexFilter)
		}
		return keep(func(c OCell) bool { return rxMatch([]byte(x.FamilyNameRegexFilter), c.Fam) })
	case *btpb.RowFilter_ColumnQualifierRegexFilter:
		if isBadRegex(x.ColumnQualifierRegexFilter) {
			return e.invalid("bad qualifier regex %q", x.ColumnQualifierRegexFilter)
		}
		return keep(func(c OCell) bool { return rxMatch(x.ColumnQualifierRegexFilter, c.Qual) })
	case *btpb.RowFilter_ValueRegexFilter:
		if isBadRegex(x.ValueRegexFilter) {
			return e.invalid("bad value regex %q", x.ValueRegexFilter)
		}
		return keep(func(c OCell) bool { return rxMatch(x.ValueRegexFilter, c.Val) })
	case *btpb.RowFilter_ColumnRangeFilter:
		cr := x.ColumnRangeFilter
		var lo, hi *string
		loOpen, hiOpen := false, false
		switch s := cr.StartQualifier.(type) {
		case *btpb.ColumnRange_StartQualifierOpen:
			v := string(s.StartQualifierOpen)
			lo, loOpen = &v, true
		case *btpb.ColumnRange_StartQualifierClosed:
			v := string(s.StartQualifierClosed)
			lo = &v
		}
		switch s := cr.EndQualifier.(type) {
		case *btpb.ColumnRange_EndQualifierOpen:
			v := string(s.EndQualifierOpen)
			hi, hiOpen = &v, true
		case *btpb.ColumnRange_EndQualifierClosed:
			v := string(s.EndQualifierClosed)
			hi = &v
		}
		if lo != nil && hi != nil && *lo > *hi {
			e.permitted = true // start > end: nothing, or InvalidArgument
			return nil
		}
		return keep(func(c OCell) bool {
			if c.Fam != cr.FamilyName {
				return false
			}
			return inRange(c.Qual, lo, loOpen, hi, hiOpen)
		})
	case *btpb.RowFilter_ValueRangeFilter:
		vr := x.ValueRangeFilter
		var lo, hi *string
		loOpen, hiOpen := false, false
		switch s := vr.StartValue.(type) {
		case *btpb.ValueRange_StartValueOpen:
			v := string(s.StartValueOpen)
			lo, loOpen = &v, true
		case *btpb.ValueRange_StartValueClosed:
			v := string(s.StartValueClosed)
			lo = &v
		}
		switch s := vr.EndValue.(type) {
		case *btpb.ValueRange_EndValueOpen:
			v := string(s.EndValueOpen)
			hi, hiOpen = &v, true
		case *btpb.ValueRange_EndValueClosed:
			v := string(s.EndValueClosed)
			hi = &v
		}
		if lo != nil && hi != nil && *lo > *hi {
			e.permitted = true
			return nil
		}
		return keep(func(c OCell) bool { return inRange(c.Val, lo, loOpen, hi, hiOpen) })
	case *btpb.RowFilter_TimestampRangeFilter:
		s, en := x.TimestampRangeFilter.StartTimestampMicros, x.TimestampRangeFilter.EndTimestampMicros
		if s%1000 != 0 || en%1000 != 0 {
			return e.invalid("sub-millisecond timestamp bound [%d,%d)", s, en)
		}
		if en != 0 && s > en {
			e.permitted = true
			return nil
		}
		return keep(func(c OCell) bool { return c.Ts >= s && (en == 0 || c.Ts < en) })
	case *btpb.RowFilter_CellsPerRowLimitFilter:
		n := int(x.CellsPerRowLimitFilter)
		if n < 0 {
			return e.invalid("cells_per_row_limit %d", n)
		}
		if n == 0 {
			e.permitted = true
			return nil
		}
		if n > len(cells) {
			n = len(cells)
		}
		return cells[:n]
	case *btpb.RowFilter_CellsPerRowOffsetFilter:
		n := int(x.CellsPerRowOffsetFilter)
		if n < 0 {
			return e.invalid("cells_per_row_offset %d", n)
		}
		if n >= len(cells) {
			return nil
		}
		return cells[n:]
	case *btpb.RowFilter_CellsPerColumnLimitFilter:
		n := int(x.CellsPerColumnLimitFilter)
		if n < 0 {
			return e.invalid("cells_per_column_limit %d", n)
		}
		if n == 0 {
			e.permitted = true
			return nil
		}
		var out []OCell
		cnt := 0
		for i, c := range cells {
			if i == 0 || c.Fam != cells[i-1].Fam || c.Qual != cells[i-1].Qual {
				cnt = 0
			}
			if cnt < n {
				out = append(out, c)
			}
			cnt++
		}
		return out
	case *btpb.RowFilter_StripValueTransformer:
		if !x.StripValueTransformer {
			e.permitted = true // strip_value_transformer=false is not specified: either
			return cells
		}
		out := make([]OCell, len(cells))
		for i, c := range cells {
			out[i] = OCell{Fam: c.Fam, Qual: c.Qual, Ts: c.Ts, Labels: c.Labels} // the value goes, a label attached earlier stays
		}
		return out
	case *btpb.RowFilter_ApplyLabelTransformer:
		if !labelRe.MatchString(x.ApplyLabelTransformer) {
			harnessErr("generator produced an invalid label %q", x.ApplyLabelTransformer)
		}
		out := make([]OCell, len(cells))
		for i, c := range cells {
			out[i] = OCell{Fam: c.Fam, Qual: c.Qual, Ts: c.Ts, Val: c.Val, Labels: []string{x.ApplyLabelTransformer}}
		}
		return out
	case *btpb.RowFilter_Chain_:
		if len(x.Chain.Filters) < 2 {
			return e.invalid("chain with %d filters", len(x.Chain.Filters))
		}
		cur := cells
		for _, s := range x.Chain.Filters {
			cur = e.eval(s, key, cur)
			if e.required {
				return nil
			}
		}
		return cur
	case *btpb.RowFilter_Interleave_:
		if len(x.Interleave.Filters) < 2 {
			return e.invalid("interleave with %d filters", len(x.Interleave.Filters))
		}
		var out []OCell
		for _, s := range x.Interleave.Filters {
			out = append(out, e.eval(s, key, cells)...)
			if e.required {
				return nil
			}
		}
		sortCellsMulti(out)
		return out
	case *btpb.RowFilter_Condition_:
		p := e.eval(x.Condition.PredicateFilter, key, cells)
		if e.required {
			return nil
		}
		br := x.Condition.FalseFilter
		other := x.Condition.TrueFilter
		if len(p) > 0 {
			br, other = other, br
		}
		if staticInvalid(other) {
			e.permitted = true
		}
		if br == nil {
			return nil
		}
		return e.eval(br, key, cells)
	case *btpb.RowFilter_RowSampleFilter:
		p := x.RowSampleFilter
		if !(p > 0 && p < 1) {
			return e.invalid("row_sample_filter %v", p)
		}
		pass := true
		if e.sampleVisit < len(e.sampleBits) {
			pass = e.sampleBits[e.sampleVisit]
		}
		e.sampleVisit++
		if pass {
			return cells
		}
		return nil
	}
	harnessErr("oracle: unsupported filter %T", f.Filter)
	return nil
}

func inRange(v string, lo *string, loOpen bool, hi *string, hiOpen bool) bool {
	if lo != nil {
		if loOpen {
			if !(v > *lo) {
				return false
			}
		} else if !(v >= *lo) {
			return false
		}
	}
	if hi != nil {
		if hiOpen {
			if !(v < *hi) {
				return false
			}
		} else if !(v <= *hi) {
			return false
		}
	}
	return true
}

// sortCellsMulti orders a multiset of cells canonically: family order of first appearance is
// unspecified, so by family name, qualifier, timestamp descending, then value and labels.
func sortCellsMulti(cs []OCell) {
	sort.SliceStable(cs, func(i, j int) bool {
		a, b := cs[i], cs[j]
		if a.Fam != b.Fam {
			return a.Fam < b.Fam
		}
		if a.Qual != b.Qual {
			return a.Qual < b.Qual
		}
		if a.Ts != b.Ts {
			return a.Ts > b.Ts
		}
		if a.Val != b.Val {
			return a.Val < b.Val
		}
		return strings.Join(a.Labels, ",") < strings.Join(b.Labels, ",")
	})
}

func hasInterleave(f *btpb.RowFilter) bool {
	if f == nil {
		return false
	}
	switch x := f.Filter.(type) {
	case *btpb.RowFilter_Interleave_:
		return true
	case *btpb.RowFilter_Chain_:
		for _, s := range x.Chain.Filters {
			if hasInterleave(s) {
				return true
			}
		}
	case *btpb.RowFilter_Condition_:
		return hasInterleave(x.Condition.PredicateFilter) || hasInterleave(x.Condition.TrueFilter) || hasInterleave(x.Condition.FalseFilter)
	}
	return false
}

func countSamples(f *btpb.RowFilter) int {
	if f == nil {
		return 0
	}
	switch x := f.Filter.(type) {
	case *btpb.RowFilter_RowSampleFilter:
		return 1
	case *btpb.RowFilter_Interleave_:
		n := 0
		for _, s := range x.Interleave.Filters {
			n += countSamples(s)
		}
		return n
	case *btpb.RowFilter_Chain_:
		n := 0
		for _, s := range x.Chain.Filters {
			n += countSamples(s)
		}
		return n
	case *btpb.RowFilter_Condition_:
		return countSamples(x.Condition.PredicateFilter) + countSamples(x.Condition.TrueFilter) + countSamples(x.Condition.FalseFilter)
	}
	return 0
}

// filterOutcome is the oracle's verdict for one row.
type filterOutcome struct {
	required    bool
	requiredMsg string
	permitted   bool
	// admissible outputs (one per assignment of the sample nodes); canonical multiset order
	outs [][]OCell
}

func evalFilterRow(f *btpb.RowFilter, row ORow) filterOutcome {
	cells := row.Cells // order of the unfiltered read
	// every assignment of every sample node (the generator stays far below 2^12 assignments;
	// the count is never capped silently: an unvisited assignment would make the oracle reject
	// a correct answer)
	k := countSamples(f)
	if k > 12 {
		harnessErr("filter with %d row_sample nodes: the generator must not produce more than 12", k)
	}
	var fo filterOutcome
	for mask := 0; mask < 1<<uint(k); mask++ {
		e := &fEval{}
		for b := 0; b < k; b++ {
			e.sampleBits = append(e.sampleBits, mask&(1<<uint(b)) == 0)
		}
		out := e.eval(f, row.Key, cells)
		if e.required {
			fo.required, fo.requiredMsg = true, e.requiredMsg
			// with another sample assignment the node may not be reached: then it is permitted
			continue
		}
		if e.permitted {
			fo.permitted = true
		}
		o := append([]OCell(nil), out...)
		sortCellsMulti(o)
		fo.outs = append(fo.outs, o)
	}
	if fo.required && len(fo.outs) > 0 {
		// reached only under some sample outcomes
		fo.required = false
		fo.permitted = true
	}
	return fo
}

func cellsEqual(a, b []OCell) bool {
	return equalRows(ORow{Cells: a}, ORow{Cells: b})
}

// ---- generation -----------------------------------------------------------------------------

type filterGen struct {
	rows     []ORow // current table content (targets for boundary arguments)
	fams     []string
	maxDepth int
	invalid  bool // allow invalid arguments
	forceInv int  // 0 draw, 1 valid, 2 invalid (directed leaves)
	sample   bool // allow row_sample
	nSamples int  // row_sample nodes generated so far (reset per filter by the caller; at most 8 per generator otherwise)
}

func (g *filterGen) targets(kind int) []string {
	seen := map[string]bool{}
	var out []string
	add := func(s string) {
		if !seen[s] {
			seen[s] = true
			out = append(out, s)
		}
	}
	for _, r := range g.rows {
		if kind == 0 {
			add(r.Key)
		}
		for _, c := range r.Cells {
			switch kind {
			case 1:
				add(c.Fam)
			case 2:
				add(c.Qual)
			case 3:
				if len(c.Val) < 64 {
					add(c.Val)
				}
			}
		}
	}
	if len(out) == 0 {
		out = []string{"x"}
	}
	sort.Strings(out)
	return out
}

func (g *filterGen) tsTargets() []int64 {
	seen := map[int64]bool{}
	var out []int64
	for _, r := range g.rows {
		for _, c := range r.Cells {
			if !seen[c.Ts] {
				seen[c.Ts] = true
				out = append(out, c.Ts)
			}
		}
	}
	if len(out) == 0 {
		out = []int64{1000}
	}
	sort.Slice(out, func(i, j int) bool { return out[i] < out[j] })
	return out
}

func around(s string, d *draws) string {
	switch d.w(4, 1, 1, 1) {
	case 1:
		return s + "\x00"
	case 2:
		if len(s) > 0 {
			return s[:len(s)-1]
		}
	case 3:
		return s + "\xff"
	}
	return s
}

const leafKinds = 17

// leaf consumes exactly 8 draws.
func (g *filterGen) leaf(d0 *draws, kind int, countSensitiveOK bool) *btpb.RowFilter {
	d := d0.sub(8)
	inv := g.invalid && d.n(6) == 5
	if g.forceInv == 1 {
		inv = false
	} else if g.forceInv == 2 {
		inv = true
	}
	regex := func(tk int) []byte {
		if inv {
			return []byte(badRegexes[d.n(len(badRegexes))])
		}
		return registerRx(genRx(d, g.targets(tk), 0))
	}
	count := func() int32 {
		if inv {
			return -1 - int32(d.n(3))
		}
		return []int32{1, 2, 3, 100, 0}[d.w(5, 4, 2, 1, 1)]
	}
	if !countSensitiveOK && (kind == 9 || kind == 10 || kind == 11) {
		kind = 0
	}
	switch kind {
	case 0:
		return &btpb.RowFilter{Filter: &btpb.RowFilter_PassAllFilter{PassAllFilter: !inv}}
	case 1:
		return &btpb.RowFilter{Filter: &btpb.RowFilter_BlockAllFilter{BlockAllFilter: !inv}}
	case 2:
		return &btpb.RowFilter{Filter: &btpb.RowFilter_RowKeyRegexFilter{RowKeyRegexFilter: regex(0)}}
	case 3:
		return &btpb.RowFilter{Filter: &btpb.RowFilter_FamilyNameRegexFilter{FamilyNameRegexFilter: string(regex(1))}}
	case 4:
		return &btpb.RowFilter{Filter: &btpb.RowFilter_ColumnQualifierRegexFilter{ColumnQualifierRegexFilter: regex(2)}}
	case 5:
		return &btpb.RowFilter{Filter: &btpb.RowFilter_ValueRegexFilter{ValueRegexFilter: regex(3)}}
	case 6:
		qs := g.targets(2)
		cr := &btpb.ColumnRange{FamilyName: g.fams[d.n(len(g.fams))]}
		a, b := around(qs[d.n(len(qs))], d), around(qs[d.n(len(qs))], d)
		if a > b && !inv {
			a, b = b, a
		}
		switch d.n(3) {
		case 1:
			cr.StartQualifier = &btpb.ColumnRange_StartQualifierOpen{StartQualifierOpen: []byte(a)}
		case 2:
			cr.StartQualifier = &btpb.ColumnRange_StartQualifierClosed{StartQualifierClosed: []byte(a)}
		}
		switch d.n(3) {
		case 1:
			cr.EndQualifier = &btpb.ColumnRange_EndQualifierOpen{EndQualifierOpen: []byte(b)}
		case 2:
			cr.EndQualifier = &btpb.ColumnRange_EndQualifierClosed{EndQualifierClosed: []byte(b)}
		}
		return &btpb.RowFilter{Filter: &btpb.RowFilter_ColumnRangeFilter{ColumnRangeFilter: cr}}
	case 7:
		vs := g.targets(3)
		vr := &btpb.ValueRange{}
		a, b := around(vs[d.n(len(vs))], d), around(vs[d.n(len(vs))], d)
		if a > b && !inv {
			a, b = b, a
		}
		switch d.n(3) {
		case 1:
			vr.StartValue = &btpb.ValueRange_StartValueOpen{StartValueOpen: []byte(a)}
		case 2:
			vr.StartValue = &btpb.ValueRange_StartValueClosed{StartValueClosed: []byte(a)}
		}
		switch d.n(3) {
		case 1:
			vr.EndValue = &btpb.ValueRange_EndValueOpen{EndValueOpen: []byte(b)}
		case 2:
			vr.EndValue = &btpb.ValueRange_EndValueClosed{EndValueClosed: []byte(b)}
		}
		return &btpb.RowFilter{Filter: &btpb.RowFilter_ValueRangeFilter{ValueRangeFilter: vr}}
	case 8:
		ts := g.tsTargets()
		s, e := ts[d.n(len(ts))]+int64(d.n(3)-1)*1000, ts[d.n(len(ts))]+int64(d.n(3)-1)*1000
		if s < 0 {
			s = 0
		}
		if e < 0 {
			e = 0
		}
		if s > e && !inv && d.n(5) != 0 {
			// (one time in five an inverted range in whole milliseconds stays as drawn: a request
			// the server may reject or answer with nothing, but must survive)
			s, e = e, s
		}
		if d.n(4) == 0 {
			e = 0
		}
		if inv {
			if d.n(2) == 0 {
				s += 1
			} else {
				e += 500
			}
		}
		return &btpb.RowFilter{Filter: &btpb.RowFilter_TimestampRangeFilter{TimestampRangeFilter: &btpb.TimestampRange{StartTimestampMicros: s, EndTimestampMicros: e}}}
	case 9:
		return &btpb.RowFilter{Filter: &btpb.RowFilter_CellsPerRowLimitFilter{CellsPerRowLimitFilter: count()}}
	case 10:
		c := count()
		if c == 100 {
			c = 4
		}
		return &btpb.RowFilter{Filter: &btpb.RowFilter_CellsPerRowOffsetFilter{CellsPerRowOffsetFilter: c}}
	case 11:
		return &btpb.RowFilter{Filter: &btpb.RowFilter_CellsPerColumnLimitFilter{CellsPerColumnLimitFilter: count()}}
	case 12:
		return &btpb.RowFilter{Filter: &btpb.RowFilter_StripValueTransformer{StripValueTransformer: true}}
	case 13:
		return &btpb.RowFilter{Filter: &btpb.RowFilter_ApplyLabelTransformer{ApplyLabelTransformer: []string{"lab", "a-1", "0", "abcdefghijklmno"}[d.n(4)]}}
	case 14:
		if g.sample && g.nSamples < 8 { // the oracle enumerates every assignment of the sample nodes
			g.nSamples++
			p := []float64{0.5, 0.01, 0.99}[d.n(3)]
			if inv {
				p = []float64{0, 1, -0.5, 1.5, math.NaN()}[d.n(5)]
			}
			return &btpb.RowFilter{Filter: &btpb.RowFilter_RowSampleFilter{RowSampleFilter: p}}
		}
		return &btpb.RowFilter{Filter: &btpb.RowFilter_PassAllFilter{PassAllFilter: true}}
	case 15: // chain / interleave with too few members
		if inv {
			sub := []*btpb.RowFilter{}
			if d.n(2) == 1 {
				sub = append(sub, &btpb.RowFilter{Filter: &btpb.RowFilter_PassAllFilter{PassAllFilter: true}})
			}
			if d.n(2) == 1 {
				return &btpb.RowFilter{Filter: &btpb.RowFilter_Chain_{Chain: &btpb.RowFilter_Chain{Filters: sub}}}
			}
			return &btpb.RowFilter{Filter: &btpb.RowFilter_Interleave_{Interleave: &btpb.RowFilter_Interleave{Filters: sub}}}
		}
		return &btpb.RowFilter{Filter: &btpb.RowFilter_PassAllFilter{PassAllFilter: true}}
	default: // exact column via qualifier regex literal
		qs := g.targets(2)
		q := qs[d.n(len(qs))]
		lit := &rx{kind: rxCat}
		for i := 0; i < len(q); i++ {
			lit.subs = append(lit.subs, &rx{kind: rxLit, b: q[i]})
		}
		if len(lit.subs) == 0 {
			lit = &rx{kind: rxEmpty}
		}
		return &btpb.RowFilter{Filter: &btpb.RowFilter_ColumnQualifierRegexFilter{ColumnQualifierRegexFilter: registerRx(lit)}}
	}
}

// tree consumes a bounded number of draws: 2 + (per node) ...; the caller's record must be wide.
func (g *filterGen) tree(d *draws, depth int, csOK bool) *btpb.RowFilter {
	if depth >= g.maxDepth || d.w(5, 2, 2, 2) == 0 {
		return g.leaf(d, d.n(leafKinds), csOK)
	}
	switch d.n(3) {
	case 0:
		n := 2 + d.n(2)
		var subs []*btpb.RowFilter
		ok := csOK
		labelled := false
		for i := 0; i < n; i++ {
			s := g.tree(d, depth+1, ok)
			if labelled && hasLabel(s) { // a strip after a label is fine: the value goes, the label stays
				// at most one label on a path; what strip_value does to a label is unspecified
				s = &btpb.RowFilter{Filter: &btpb.RowFilter_PassAllFilter{PassAllFilter: true}}
			}
			if hasLabel(s) {
				labelled = true
			}
			subs = append(subs, s)
			if hasInterleave(s) {
				ok = false
			}
		}
		return &btpb.RowFilter{Filter: &btpb.RowFilter_Chain_{Chain: &btpb.RowFilter_Chain{Filters: subs}}}
	case 1:
		n := 2 + d.n(2)
		var subs []*btpb.RowFilter
		for i := 0; i < n; i++ {
			subs = append(subs, g.tree(d, depth+1, csOK))
		}
		return &btpb.RowFilter{Filter: &btpb.RowFilter_Interleave_{Interleave: &btpb.RowFilter_Interleave{Filters: subs}}}
	default:
		c := &btpb.RowFilter_Condition{PredicateFilter: g.tree(d, depth+1, csOK)}
		if d.n(4) != 0 {
			c.TrueFilter = g.tree(d, depth+1, csOK)
		}
		if d.n(4) != 0 {
			c.FalseFilter = g.tree(d, depth+1, csOK)
		}
		return &btpb.RowFilter{Filter: &btpb.RowFilter_Condition_{Condition: c}}
	}
}

func hasLabel(f *btpb.RowFilter) bool {
	if f == nil {
		return false
	}
	switch x := f.Filter.(type) {
	case *btpb.RowFilter_ApplyLabelTransformer:
		return true
	case *btpb.RowFilter_Chain_:
		for _, s := range x.Chain.Filters {
			if hasLabel(s) {
				return true
			}
		}
	case *btpb.RowFilter_Interleave_:
		for _, s := range x.Interleave.Filters {
			if hasLabel(s) {
				return true
			}
		}
	case *btpb.RowFilter_Condition_:
		return hasLabel(x.Condition.PredicateFilter) || hasLabel(x.Condition.TrueFilter) || hasLabel(x.Condition.FalseFilter)
	}
	return false
}

func hasStrip(f *btpb.RowFilter) bool {
	if f == nil {
		return false
	}
	switch x := f.Filter.(type) {
	case *btpb.RowFilter_StripValueTransformer:
		return true
	case *btpb.RowFilter_Chain_:
		for _, s := range x.Chain.Filters {
			if hasStrip(s) {
				return true
			}
		}
	case *btpb.RowFilter_Interleave_:
		for _, s := range x.Interleave.Filters {
			if hasStrip(s) {
				return true
			}
		}
	case *btpb.RowFilter_Condition_:
		return hasStrip(x.Condition.PredicateFilter) || hasStrip(x.Condition.TrueFilter) || hasStrip(x.Condition.FalseFilter)
	}
	return false
}
