package main

import (
	"bufio"
	"bytes"
	"context"
	"encoding/json"
	"fmt"
	"io"
	"mime"
	"mime/multipart"
	"net/http"
	"net/url"
	"strconv"
	"strings"
)

// C20 (GCS half): perturbed single requests, batch sub-responses, injected store errors,
// concurrent mixes.

var c20Paths = []string{
	"/", "/storage/v1/b", "/storage/v1/b/scr", "/storage/v1/b/scr/o", "/storage/v1/b/scr/o/x", "/storage/v1/b/scr/o/dir/y.txt",
	"/upload/storage/v1/b/scr/o", "/download/storage/v1/b/scr/o/x", "/b/scr/o/x", "/scr/x", "/scr", "/batch/storage/v1",
	"/storage/v1/b/scr/o/x/compose", "/storage/v1/b/scr/o/x/rewriteTo/b/scr/o/y", "/storage/v1/b/scr/o/x/rewriteTo/b/scr", "/storage/v1/b/scr/o/x/rewriteTo/b/",
	"/storage/v1/b/scr/o/x/rewriteTo/b/scr/o/", "/storage/v1/b/nobucket/o/x", "/storage/v1/b/nobucket/o", "/storage/v1/b/scr/o/gz.bin", "/storage/v1/b/scr/o/missing",
	"/storage/v1/b/scr/o/x/compose/compose", "/storage/v1/b/scr/o/x/rewriteTo/b/scr/o/x", "/storage/v1/b/scr/o/x/copyTo/b/scr/o/x", "/storage/v1/b/scr/o/%zz", "/storage/v1/b//o/x", "/upload/storage/v1/b/scr/o/x",
}
var c20Methods = []string{"GET", "POST", "PUT", "PATCH", "DELETE", "HEAD", "OPTIONS"}
var c20CR = []string{"", "bytes 0-4/5", "bytes 5-0/3", "bytes */*", "bytes */5", "bytes -1-2/3", "bytes 0-99999999999999999999/1", "bits 0-1/2", "bytes 0-4", "bytes 2-3/*", "bytes 0-0/-1", "bytes 9223372036854775807-9223372036854775807/1", "bytes 0-3/9223372036854775807", "bytes */9223372036854775807", "bytes 0-4/4", "bytes 3-4/9223372036854775806", "bytes */0"}
var c20CT = []string{"", "application/json", "multipart/related", "multipart/related; boundary=zz", "multipart/mixed; boundary=bb", "text/plain", "multipart/related; boundary="}
var c20Bodies = []string{"", "{}", "{", "null", `{"name":"x"}`, `{"name":5}`, `{"sourceObjects":[{"name":"x"}]}`, `{"sourceObjects":[{"name":"x","objectPreconditions":null}],"destination":null}`,
	`{"sourceObjects":[],"destination":{}}`, `{"sourceObjects":null}`, `{"metadata":{"a":null}}`, `[1,2]`, "--zz\r\nContent-Type: application/json\r\n\r\n{\"name\":\"x\"}\r\n--zz\r\n\r\ndata\r\n--zz--\r\n",
	"--zz\r\nContent-Type: application/json\r\n\r\n{\"name\":\"x\"}\r\n--zz\r\n\r\ntrunc", "--zz\r\n\r\nnot json\r\n--zz\r\n\r\nd\r\n--zz--\r\n", "--zz--\r\n",
	"--bb\r\nContent-Type: application/http\r\n\r\nGET /storage/v1/b/scr/o/x HTTP/1.1\r\n\r\n\r\n--bb--\r\n", "--bb\r\nContent-Type: application/http\r\n\r\nGARBAGE\r\n--bb--\r\n",
	"--bb\r\nContent-Type: text/plain\r\n\r\nGET / HTTP/1.1\r\n\r\n--bb--\r\n", "--bb\r\nContent-Type: application/http\r\n\r\nGET /storage/v1/b/scr/o/x HTTP/1.1\r\n", "\x1f\x8b\x08\x00garbage", "abcde",
	// JSON null where an object, array or string is expected (a decoder leaves nil pointers behind)
	`{"sourceObjects":[null]}`, `{"sourceObjects":[{"name":"x"},null],"destination":{}}`, `{"sourceObjects":[{"name":null}]}`, `{"acl":[null],"metadata":null}`, `{"name":null,"bucket":null}`, `[null]`}

func c20GCSRequest(d *draws, uploadID string) HReq {
	q := url.Values{}
	switch d.n(6) {
	case 0:
		q.Set("uploadType", []string{"media", "multipart", "resumable", "junk", ""}[d.n(5)])
	case 1:
		q.Set("uploadType", "media")
		q.Set("name", []string{"x", "", "dir/y.txt", "a b", "k\xff", "\xc3\x28/z"}[d.n(6)]) // the last two are not valid UTF-8
	case 2:
		q.Set("upload_id", []string{uploadID, "999", "abc", "", "-1"}[d.n(5)])
	}
	switch d.n(8) {
	case 0:
		q.Set("alt", []string{"json", "media", "junk"}[d.n(3)])
	case 1:
		q.Set("ifGenerationMatch", []string{"0", "x", "-1", "99999999999999999999"}[d.n(4)])
	case 2:
		q.Set("maxResults", []string{"0", "-5", "x", "1", "99999999999"}[d.n(5)])
	case 3:
		q.Set("pageToken", []string{"!!", "AAAA", "", "CgF4"}[d.n(4)])
	case 4:
		q.Set("prefix", "x")
		q.Set("delimiter", []string{"/", "", "x"}[d.n(3)])
	case 5:
		q.Set("ifMetagenerationNotMatch", []string{"", "1", "zz"}[d.n(3)])
	}
	h := map[string]string{}
	if ct := c20CT[d.n(len(c20CT))]; ct != "" {
		h["Content-Type"] = ct
	}
	if cr := c20CR[d.n(len(c20CR))]; cr != "" && d.n(2) == 0 {
		h["Content-Range"] = cr
	}
	switch d.n(10) {
	case 0:
		h["Content-Encoding"] = "gzip"
	case 1:
		h["X-Forwarded-Host"] = "a,b"
		h["Forwarded"] = `host="x";proto=https, host=y`
	case 2:
		h["Accept-Encoding"] = "gzip"
	case 3:
		h["X-Guploader-No-308"] = "yes"
	}
	return HReq{Method: c20Methods[d.w(6, 6, 3, 2, 2, 1, 1)], Path: c20Paths[d.n(len(c20Paths))], Query: q, Headers: h, Body: []byte(c20Bodies[d.n(len(c20Bodies))])}
}

// wellFormed checks an HTTP answer: a status, an error body for errors, valid JSON that carries
// the same code when it declares JSON.
func wellFormed(resp *HResp, method string) string {
	if resp.Status < 100 || resp.Status > 599 {
		return fmt.Sprintf("status %d", resp.Status)
	}
	ct := resp.Header.Get("Content-Type")
	if resp.Status >= 400 {
		if len(resp.Body) == 0 && method != "HEAD" {
			return "an error status with an empty body"
		}
		if strings.HasPrefix(ct, "application/json") && method != "HEAD" {
			var m struct {
				Error *struct {
					Code    int    `json:"code"`
					Message string `json:"message"`
				} `json:"error"`
			}
			if err := json.Unmarshal(resp.Body, &m); err != nil {
				return fmt.Sprintf("declares JSON but the body does not parse: %v: %s", err, shortVal(string(resp.Body)))
			}
			if m.Error == nil {
				return "JSON error body without an 'error' member: " + shortVal(string(resp.Body))
			}
			if m.Error.Code != resp.Status {
				return fmt.Sprintf("JSON error code %d differs from the HTTP status %d", m.Error.Code, resp.Status)
			}
		}
	}
	return ""
}

func c20GCSSetup(r *Run, w *GCSWorld, m *gModel) bool {
	for _, b := range []string{"bkt", "scr"} {
		if k, msg := m.step(gOp{Kind: "CreateBucket", Bucket: b}, execG(w, gOp{Kind: "CreateBucket", Bucket: b})); k != "" {
			r.Fail(k, "", "%s", msg)
			return false
		}
	}
	for i, n := range []string{"keep.txt", "dir/keep2.bin", "x"} {
		b := "bkt"
		if n == "x" {
			b = "scr"
		}
		op := gOp{Kind: "Upload", Proto: []string{"media", "multipart", "media"}[i], Up: upSpec{Bucket: b, Name: n, Content: []byte(fmt.Sprintf("kept-%d", i)), ContentType: "text/plain"}}
		if k, msg := m.step(op, execG(w, op)); k != "" {
			r.Fail(k, "", "%s", msg)
			return false
		}
	}
	// an object marked gzip whose bytes are not gzip (scratch bucket)
	gz := gOp{Kind: "Upload", Proto: "multipart", Up: upSpec{Bucket: "scr", Name: "gz.bin", Content: []byte("not gzip at all"), ContentType: "text/plain", Extra: map[string]interface{}{"contentEncoding": "gzip"}}}
	execG(w, gz)
	return true
}

func c20GCSProbe(r *Run, w *GCSWorld, m *gModel, when string) bool {
	keep := newGModel()
	keep.Buckets["bkt"] = m.Buckets["bkt"]
	keep.Gens = m.Gens
	if k, msg := fullCompareG(w, keep); k != "" {
		r.Fail("service-degraded", "", "%s: stored data no longer reads back (%s): %s", when, k, msg)
		return false
	}
	for _, op := range []gOp{{Kind: "Upload", Proto: "media", Up: upSpec{Bucket: "bkt", Name: "probe.txt", Content: []byte("probe"), ContentType: "text/plain"}},
		{Kind: "Media", Bucket: "bkt", Name: "probe.txt"}, {Kind: "Delete", Bucket: "bkt", Name: "probe.txt"}} {
		if k, msg := keep.step(op, execG(w, op)); k != "" {
			r.Fail("service-degraded", "", "%s: a valid request no longer behaves (%s): %s", when, k, msg)
			return false
		}
	}
	if n := w.emu.VerifLocks().VerifLen(); n != 0 {
		r.Fail("lock-leak", "", "%s: the per-object lock map retains %d entries", when, n)
		return false
	}
	return true
}

func c20GCSSingle(r *Run, cfg *Stream) {
	store := pickStore(r, cfg)
	clk := NewClock(0, 1_700_000_000_000_000_000)
	wallIncreasing(r, clk)
	w := NewGCSWorld(r, store, "", clk)
	defer w.Destroy()
	m := newGModel()
	if !c20GCSSetup(r, w, m) {
		return
	}
	_, id := w.ResumableStart(upSpec{Bucket: "scr", Name: "res.bin", ContentType: "text/plain"})
	n := 10 + cfg.Intn(60)
	ps := r.T.S("prog.0")
	inject := cfg.Intn(3) == 2
	r.Mix("gcs-single" + store)
	for i := 0; i < n && !r.Failed(); i++ {
		d := record(ps, 40)
		q := c20GCSRequest(d, id)
		if inject {
			k := d.n(4)
			cnt := 0
			w.ys.FailBefore = func(method string) error {
				cnt++
				if cnt == k+1 {
					r.Fault("store_error")
					return fmt.Errorf("simulated: disk unavailable")
				}
				return nil
			}
		}
		r.Hist(map[string]interface{}{"request": q.String()})
		if _, err := q.build(); err != nil {
			w.ys.FailBefore = nil
			continue // the transport would not have delivered it
		}
		resp := w.Do(q)
		w.ys.FailBefore = nil
		r.Mix(fmt.Sprintf("%s%s%d", q.Method, q.Path, resp.Status))
		if resp.Status >= 400 {
			r.Probe("c20.gcs_error_status")
		}
		if msg := wellFormed(resp, q.Method); msg != "" {
			r.Fail("malformed-response", "", "%s -> HTTP %d: %s", q, resp.Status, msg)
			return
		}
		if i%10 == 9 && !c20GCSProbe(r, w, m, "after "+q.String()) {
			return
		}
	}
	if !r.Failed() && r.Index%8 == 3 {
		c20GCSOwnKeyNames(r, w)
	}
	if !r.Failed() && c20GCSProbe(r, w, m, "at the end") {
		c20Batch(r, w, m, r.T.S("prog.0"))
	}
	r.nontrivial = true
	r.Sample = map[string]interface{}{"mode": "gcs-single", "store": store, "requests": n, "store_errors": inject}
}

// c20GCSOwnKeyNames: buckets and objects named like the keys the emulator itself might use
// (a bucket "upload", objects named like the id of their own resumable upload session).
func c20GCSOwnKeyNames(r *Run, w *GCSWorld) {
	for _, b := range []string{"upload", "upload:", "o", "b"} {
		w.CreateBucket(b)
	}
	_, idp := w.ResumableStart(upSpec{Bucket: "scr", Name: "idprobe", ContentType: "text/plain"})
	cur, err := strconv.Atoi(idp)
	if err != nil {
		return // session ids are not numbers: nothing to aim at
	}
	for i, b := range []string{"upload", "upload:", "o"} {
		name := strconv.Itoa(cur + 1 + i)
		resp, id := w.ResumableStart(upSpec{Bucket: b, Name: name, ContentType: "text/plain"})
		if resp.Status != 200 {
			r.Fail("own-key-names", "", "resumable start for %s/%s: HTTP %d", b, name, resp.Status)
			return
		}
		if id == name {
			r.Probe("c20.object_named_like_its_upload_id")
		}
		if resp = w.ResumableChunk(b, id, []byte("12345"), 0, 5, false); resp.Status != 200 {
			r.Fail("own-key-names", "", "final chunk of %s/%s (session %s): HTTP %d %s", b, name, id, resp.Status, shortVal(string(resp.Body)))
			return
		}
		if g := w.GetMedia(b, name, 0); g.Status != 200 || string(g.Body) != "12345" {
			r.Fail("own-key-names", "", "download of %s/%s: HTTP %d %q", b, name, g.Status, shortVal(string(g.Body)))
			return
		}
	}
}

// c20Batch: one sub-response per part, equal to what the same request returns on its own.
func c20Batch(r *Run, w *GCSWorld, m *gModel, ps *Stream) {
	d := record(ps, 24)
	targets := []string{"/storage/v1/b/bkt/o/keep.txt", "/storage/v1/b/bkt/o/dir/keep2.bin", "/storage/v1/b/bkt/o/missing", "/storage/v1/b/nobucket/o/x", "/storage/v1/b/bkt/o", "/storage/v1/b/bkt/o/keep.txt?alt=media", "/storage/v1/b/bkt/o?maxResults=x", "/storage/v1/b/bkt"}
	k := 1 + d.n(5)
	var parts []string
	var body bytes.Buffer
	for i := 0; i < k; i++ {
		t := targets[d.n(len(targets))]
		parts = append(parts, t)
		fmt.Fprintf(&body, "--batch_b\r\nContent-Type: application/http\r\nContent-ID: <item%d>\r\n\r\nGET %s HTTP/1.1\r\n\r\n\r\n", i, t)
	}
	body.WriteString("--batch_b--\r\n")
	resp := w.Do(HReq{Method: "POST", Path: "/batch/storage/v1", Headers: map[string]string{"Content-Type": "multipart/mixed; boundary=batch_b"}, Body: body.Bytes()})
	r.Probe("c20.batch")
	if resp.Status != 200 {
		r.Fail("batch", "", "batch of %d GETs %v: HTTP %d %s", k, parts, resp.Status, shortVal(string(resp.Body)))
		return
	}
	_, params, err := mime.ParseMediaType(resp.Header.Get("Content-Type"))
	if err != nil || params["boundary"] == "" {
		r.Fail("batch", "", "batch response has no multipart content type: %q", resp.Header.Get("Content-Type"))
		return
	}
	mr := multipart.NewReader(bytes.NewReader(resp.Body), params["boundary"])
	n := 0
	for {
		p, err := mr.NextPart()
		if err == io.EOF {
			break
		}
		if err != nil {
			r.Fail("batch", "", "batch response part %d unreadable: %v", n, err)
			return
		}
		sub, err := http.ReadResponse(bufio.NewReader(p), nil)
		if err != nil {
			r.Fail("batch", "", "batch response part %d is not an HTTP response: %v", n, err)
			return
		}
		sb, _ := io.ReadAll(sub.Body)
		if n >= k {
			r.Fail("batch", "", "more sub-responses than parts (%d)", k)
			return
		}
		u, _ := url.Parse(parts[n])
		alone := w.Do(HReq{Method: "GET", Path: u.EscapedPath(), Query: u.Query()})
		if sub.StatusCode != alone.Status || !bytes.Equal(bytes.TrimSpace(sb), bytes.TrimSpace(alone.Body)) {
			r.Fail("batch", "", "sub-response %d (GET %s) is HTTP %d %s, the same request alone gives HTTP %d %s", n, parts[n], sub.StatusCode, shortVal(string(sb)), alone.Status, shortVal(string(alone.Body)))
			return
		}
		if want := fmt.Sprintf("<response-item%d>", n); p.Header.Get("Content-ID") != want {
			r.Fail("batch", "", "sub-response %d has Content-ID %q, want %q", n, p.Header.Get("Content-ID"), want)
			return
		}
		n++
	}
	if n != k {
		r.Fail("batch", "", "batch of %d parts answered with %d sub-responses", k, n)
	}
}

// c20GCSMix: concurrent request mixes under the scheduler.
func c20GCSMix(r *Run, cfg *Stream) {
	store := []string{"mem", "file"}[cfg.Intn(2)]
	clk := NewClock(0, 1_700_000_000_000_000_000)
	wallIncreasing(r, clk)
	w := NewGCSWorld(r, store, "", clk)
	defer w.Destroy()
	m := newGModel()
	if !c20GCSSetup(r, w, m) {
		return
	}
	for i := 0; i < 6; i++ {
		w.UploadMedia(upSpec{Bucket: "scr", Name: fmt.Sprintf("l/%d.txt", i), Content: []byte("z"), ContentType: "text/plain"})
	}
	_, id := w.ResumableStart(upSpec{Bucket: "scr", Name: "res.bin", ContentType: "text/plain"})
	s := r.NewSched()
	s.Budget = 100000
	roles := []int{cfg.Intn(8), cfg.Intn(8), cfg.Intn(8)}
	if r.Index < 10 {
		roles = [][]int{{0, 1, 2}, {3, 3, 0}, {4, 1, 0}, {5, 5, 2}, {6, 7, 7}}[r.Index%5]
	}
	chk := func(q HReq, resp *HResp) {
		if msg := wellFormed(resp, q.Method); msg != "" {
			r.Fail("malformed-response", "", "%s -> HTTP %d: %s", q, resp.Status, msg)
		}
	}
	// the requests of one task may have their contexts cancelled (the client goes away), the
	// cancellation becoming visible inside one of the ctx.Err() calls the code makes
	cancelTask := -1
	if cfg.Intn(3) == 2 {
		cancelTask = cfg.Intn(len(roles))
	}
	fsCancel := r.T.S("fault")
	for ti, role := range roles {
		role, ti := role, ti
		s.Go(fmt.Sprintf("t%d.role%d", ti, role), func() {
			for i := 0; i < 3 && !r.Failed(); i++ {
				var q HReq
				if ti == cancelTask {
					inner, c := context.WithCancel(context.Background())
					defer c()
					q.Ctx = &simCtx{Context: inner, cancel: c, atErr: func() bool {
						if fsCancel.Intn(4) != 3 {
							return false
						}
						r.Fault("ctx_cancel_at_err")
						r.Probe("c20.request_cancelled")
						return true
					}}
				}
				ctx := q.Ctx
				switch role {
				case 0: // listing while deleting
					q = HReq{Method: "GET", Path: "/storage/v1/b/scr/o", Query: url.Values{"delimiter": {"/"}, "maxResults": {"2"}}}
					r.Probe("c20.list_during_delete")
				case 1:
					q = HReq{Method: "DELETE", Path: objPath("scr", fmt.Sprintf("l/%d.txt", (i+ti)%6))}
				case 2:
					q = HReq{Method: "POST", Path: upPath("scr"), Query: url.Values{"uploadType": {"media"}, "name": {fmt.Sprintf("l/%d.txt", i)}}, Body: []byte("new")}
				case 3: // two chunks of one resumable upload
					q = HReq{Method: "PUT", Path: upPath("scr"), Query: url.Values{"upload_id": {id}}, Headers: map[string]string{"Content-Range": fmt.Sprintf("bytes %d-%d/*", i*2, i*2+1)}, Body: []byte("ab")}
					r.Probe("c20.concurrent_chunks")
				case 5: // copies between two names in opposite directions, and of an object onto itself
					a, b := fmt.Sprintf("l/%d.txt", (ti+i)%2), fmt.Sprintf("l/%d.txt", (ti+i+1)%2)
					if i == 2 {
						b = a
					}
					q = HReq{Method: "POST", Path: objPath("scr", a) + "/rewriteTo/b/scr/o/" + escName(b)}
					r.Probe("c20.opposing_copies")
				case 6: // a second bucket is deleted and re-created while others upload into it
					if i%2 == 0 {
						q = HReq{Method: "DELETE", Path: "/storage/v1/b/tmp"}
					} else {
						q = HReq{Method: "POST", Path: "/storage/v1/b", Headers: map[string]string{"Content-Type": "application/json"}, Body: []byte(`{"name":"tmp"}`)}
					}
					r.Probe("c20.bucket_deleted_during_uploads")
				case 7: // uploads into, and patches of objects of, the bucket that comes and goes
					if (i+ti)%3 != 2 {
						q = HReq{Method: "POST", Path: upPath("tmp"), Query: url.Values{"uploadType": {"media"}, "name": {"t.txt"}}, Body: []byte("tmp")}
					} else {
						q = HReq{Method: "PATCH", Path: objPath("tmp", "t.txt"), Headers: map[string]string{"Content-Type": "application/json"}, Body: []byte(`{"metadata":{"k":"v"}}`)}
					}
				default: // bucket metadata / creation while listing
					if i%2 == 0 {
						q = HReq{Method: "POST", Path: "/storage/v1/b", Headers: map[string]string{"Content-Type": "application/json"}, Body: []byte(`{"name":"scr"}`)}
					} else {
						q = HReq{Method: "GET", Path: "/storage/v1/b/scr"}
					}
				}
				q.Ctx = ctx
				chk(q, w.Do(q))
			}
		})
	}
	v := s.Run()
	r.FinishSched(s, v)
	r.Sample = map[string]interface{}{"mode": "gcs-mix", "store": store, "roles": roles, "steps": s.Steps, "preemptions": s.Pre}
	if r.Failed() {
		return
	}
	c20GCSProbe(r, w, m, "after the concurrent mix")
}
