package main

import (
	"fmt"
	"strings"
)

// Regular expressions for the filter oracle are generated from a small AST and matched by a
// backtracking matcher over that AST (not by a regex library), so the oracle does not share the
// implementation's engine. Whole-field, bytewise matching; '.' matches every byte except 0x0a, \\C every byte (data contains 0x0a).

const (
	rxLit     = iota
	rxAny     // .
	rxAnyByte // \C
	rxClass
	rxStar
	rxPlus
	rxQuest
	rxCat
	rxAlt
	rxGroup
	rxEmpty
	rxRepeat // x{min,max}: counted repetition (max < 0: {min,}; max == min: {min})
)

type rx struct {
	kind int
	b    byte
	neg  bool
	set  []byte // class members (explicit bytes), ranges are expanded
	lo   []byte // class ranges lo[i]-hi[i]
	hi   []byte
	subs []*rx
	min  int // rxRepeat
	max  int
}

func (r *rx) classHas(c byte) bool {
	in := false
	for _, x := range r.set {
		if x == c {
			in = true
		}
	}
	for i := range r.lo {
		if c >= r.lo[i] && c <= r.hi[i] {
			in = true
		}
	}
	return in != r.neg
}

func rxEscape(sb *strings.Builder, c byte, inClass bool) {
	if inClass {
		if c == ']' || c == '\\' || c == '^' || c == '-' || c == '[' {
			sb.WriteByte('\\')
		}
		sb.WriteByte(c)
		return
	}
	if strings.IndexByte(`\.+*?()|[]{}^$`, c) >= 0 {
		sb.WriteByte('\\')
	}
	sb.WriteByte(c)
}

func (r *rx) write(sb *strings.Builder) {
	switch r.kind {
	case rxLit:
		rxEscape(sb, r.b, false)
	case rxAny:
		sb.WriteByte('.')
	case rxAnyByte:
		sb.WriteString(`\C`)
	case rxClass:
		sb.WriteByte('[')
		if r.neg {
			sb.WriteByte('^')
		}
		for _, c := range r.set {
			rxEscape(sb, c, true)
		}
		for i := range r.lo {
			rxEscape(sb, r.lo[i], true)
			sb.WriteByte('-')
			rxEscape(sb, r.hi[i], true)
		}
		sb.WriteByte(']')
	case rxStar, rxPlus, rxQuest:
		sub := r.subs[0]
		needGroup := sub.kind == rxCat || sub.kind == rxAlt || sub.kind == rxStar || sub.kind == rxPlus || sub.kind == rxQuest || sub.kind == rxEmpty
		if needGroup {
			sb.WriteString("(?:")
		}
		sub.write(sb)
		if needGroup {
			sb.WriteByte(')')
		}
		sb.WriteByte("*+?"[r.kind-rxStar])
	case rxCat:
		for _, s := range r.subs {
			if s.kind == rxAlt {
				sb.WriteString("(?:")
				s.write(sb)
				sb.WriteByte(')')
			} else {
				s.write(sb)
			}
		}
	case rxAlt:
		for i, s := range r.subs {
			if i > 0 {
				sb.WriteByte('|')
			}
			s.write(sb)
		}
	case rxGroup:
		sb.WriteByte('(')
		r.subs[0].write(sb)
		sb.WriteByte(')')
	case rxRepeat:
		sub := r.subs[0]
		if sub.kind != rxLit && sub.kind != rxAny && sub.kind != rxAnyByte && sub.kind != rxClass {
			sb.WriteString("(?:")
			sub.write(sb)
			sb.WriteByte(')')
		} else {
			sub.write(sb)
		}
		switch {
		case r.max == r.min:
			fmt.Fprintf(sb, "{%d}", r.min)
		case r.max < 0:
			fmt.Fprintf(sb, "{%d,}", r.min)
		default:
			fmt.Fprintf(sb, "{%d,%d}", r.min, r.max)
		}
	case rxEmpty:
	}
}

func (r *rx) pattern() []byte {
	var sb strings.Builder
	r.write(&sb)
	return []byte(sb.String())
}

// match reports whether the whole of s matches r.
func (r *rx) match(s []byte) bool {
	steps := 0
	return r.m(s, 0, func(i int) bool { return i == len(s) }, &steps)
}

func (r *rx) m(s []byte, i int, k func(int) bool, steps *int) bool {
	*steps++
	if *steps > 200000 {
		harnessErr("regex matcher budget exceeded")
	}
	switch r.kind {
	case rxLit:
		return i < len(s) && s[i] == r.b && k(i+1)
	case rxAny:
		return i < len(s) && s[i] != '\n' && k(i+1)
	case rxAnyByte:
		return i < len(s) && k(i+1)
	case rxClass:
		return i < len(s) && r.classHas(s[i]) && k(i+1)
	case rxEmpty:
		return k(i)
	case rxGroup:
		return r.subs[0].m(s, i, k, steps)
	case rxCat:
		var rec func(n, i int) bool
		rec = func(n, i int) bool {
			if n == len(r.subs) {
				return k(i)
			}
			return r.subs[n].m(s, i, func(j int) bool { return rec(n+1, j) }, steps)
		}
		return rec(0, i)
	case rxAlt:
		for _, sub := range r.subs {
			if sub.m(s, i, k, steps) {
				return true
			}
		}
		return false
	case rxRepeat:
		var rep func(n, i int) bool
		rep = func(n, i int) bool {
			if n >= r.min && k(i) {
				return true
			}
			if r.max >= 0 && n >= r.max {
				return false
			}
			return r.subs[0].m(s, i, func(j int) bool { return (j > i || n < r.min) && rep(n+1, j) }, steps)
		}
		return rep(0, i)
	case rxQuest:
		return r.subs[0].m(s, i, k, steps) || k(i)
	case rxStar, rxPlus:
		var star func(i int) bool
		star = func(i int) bool {
			if r.subs[0].m(s, i, func(j int) bool { return j > i && star(j) }, steps) {
				return true
			}
			return k(i)
		}
		if r.kind == rxStar {
			return star(i)
		}
		return r.subs[0].m(s, i, star, steps)
	}
	return false
}

// genRx builds a regex from draws, biased so that it matches one of the target fields often.
// alphabet: the bytes occurring in the data.
func genRx(d *draws, targets []string, depth int) *rx {
	lits := func(s string) *rx {
		c := &rx{kind: rxCat}
		for i := 0; i < len(s); i++ {
			c.subs = append(c.subs, &rx{kind: rxLit, b: s[i]})
		}
		if len(c.subs) == 0 {
			return &rx{kind: rxEmpty}
		}
		if len(c.subs) == 1 {
			return c.subs[0]
		}
		return c
	}
	t := ""
	if len(targets) > 0 {
		t = targets[d.n(len(targets))]
	}
	switch d.w(6, 3, 3, 3, 3, 2, 2, 2, 1, 3) {
	case 9: // counted repetition of the first byte (run length of the target or one off), rest literal
		if len(t) == 0 {
			return &rx{kind: rxRepeat, min: 0, max: 2, subs: []*rx{{kind: rxAny}}}
		}
		run := 1
		for run < len(t) && t[run] == t[0] {
			run++
		}
		n := run + d.n(3) - 1
		if n < 0 {
			n = 0
		}
		rep := &rx{kind: rxRepeat, min: n, max: n, subs: []*rx{{kind: rxLit, b: t[0]}}}
		switch d.n(3) {
		case 1:
			rep.max = -1
		case 2:
			rep.max = n + 1
		}
		return &rx{kind: rxCat, subs: []*rx{rep, lits(t[run:])}}
	case 0: // exact literal
		return lits(t)
	case 1: // prefix + .*
		cut := 0
		if len(t) > 0 {
			cut = d.n(len(t) + 1)
		}
		return &rx{kind: rxCat, subs: []*rx{lits(t[:cut]), {kind: rxStar, subs: []*rx{{kind: rxAny}}}}}
	case 2: // \C* (matches everything, any byte)
		return &rx{kind: rxStar, subs: []*rx{{kind: rxAnyByte}}}
	case 3: // alternation of two targets
		u := ""
		if len(targets) > 0 {
			u = targets[d.n(len(targets))]
		}
		return &rx{kind: rxAlt, subs: []*rx{lits(t), lits(u)}}
	case 4: // class based: first byte as class/range, rest .+ or literal
		if len(t) == 0 {
			return &rx{kind: rxQuest, subs: []*rx{{kind: rxAny}}}
		}
		c := &rx{kind: rxClass, neg: d.n(4) == 3}
		if d.n(2) == 0 {
			c.set = []byte{t[0]}
		} else {
			lo, hi := t[0], t[0]
			if lo > 0 && lo-1 != '\n' {
				lo--
			}
			if hi < 255 && hi+1 != '\n' {
				hi++
			}
			c.lo, c.hi = []byte{lo}, []byte{hi}
		}
		return &rx{kind: rxCat, subs: []*rx{c, {kind: rxStar, subs: []*rx{{kind: rxAnyByte}}}}}
	case 5: // group with + over the first byte
		if len(t) == 0 {
			return &rx{kind: rxStar, subs: []*rx{{kind: rxAny}}}
		}
		return &rx{kind: rxCat, subs: []*rx{{kind: rxGroup, subs: []*rx{{kind: rxPlus, subs: []*rx{{kind: rxLit, b: t[0]}}}}}, lits(t[1:])}}
	case 6: // optional suffix
		if len(t) == 0 {
			return &rx{kind: rxEmpty}
		}
		return &rx{kind: rxCat, subs: []*rx{lits(t[:len(t)-1]), {kind: rxQuest, subs: []*rx{{kind: rxLit, b: t[len(t)-1]}}}}}
	case 7: // a proper substring only (must NOT match unless equal: whole-field semantics)
		if len(t) < 2 {
			return lits(t)
		}
		return lits(t[:len(t)-1])
	default: // .+ (at least one byte, no newline)
		return &rx{kind: rxPlus, subs: []*rx{{kind: rxAny}}}
	}
}

// invalid regex patterns (rejected by every RE2 parser)
// (the last three only become well formed when something is wrapped around them)
var badRegexes = []string{"(", "[a", "*a", "a**", `a\`, "a{2,1}", "(?P<n", "a)", "a)|(b", ")(", "a)(?:b"}

func rxString(p []byte) string { return fmt.Sprintf("%q", p) }
