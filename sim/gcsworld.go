package main

import (
	"bufio"
	"bytes"
	"compress/gzip"
	"context"
	"crypto/md5"
	"encoding/base64"
	"encoding/json"
	"fmt"
	"io"
	"mime"
	"mime/multipart"
	"net/http"
	"net/http/httptest"
	"net/url"
	"os"
	"sort"
	"strconv"
	"strings"

	"github.com/fullstorydev/emulators/storage/gcsemu"
	"google.golang.org/api/storage/v1"
)

// GCSWorld is one GCS emulator instance inside the simulator: the real mux and handlers behind
// httptest recorders, the store wrapped by a yielding pass-through, a simulator-owned wall clock.

type GCSWorld struct {
	r     *Run
	Store string // "mem" | "file"
	Dir   string
	Clk   *Clock
	emu   *gcsemu.GcsEmu
	mux   *http.ServeMux
	ys    *yStore
	Logs  []string
	ctx   context.Context // context of the next request only (consumed by Do)
	// remote, when set, carries every request over a real loopback HTTP connection to the same
	// mux (transport fidelity: the recorder stub and the real server must agree)
	remote *httptest.Server
	// ViaBatch: send the next metadata PATCH / DELETE inside a batch request
	ViaBatch bool
}

// ServeOverHTTP switches the world to a real net/http server on a loopback socket. That world also
// runs the store WITHOUT the harness's pass-through wrapper (a wrapper hides whatever optional
// interfaces the emulator might discover on the store by type assertion).
func (w *GCSWorld) ServeOverHTTP() {
	w.emu = gcsemu.NewGcsEmu(gcsemu.Options{Store: w.ys.in})
	w.mux = http.NewServeMux()
	w.emu.Register(w.mux)
	w.remote = httptest.NewServer(w.mux)
	w.r.Defer(w.remote.Close)
}

var remoteClient = &http.Client{
	Transport:     &http.Transport{DisableCompression: true},
	CheckRedirect: func(*http.Request, []*http.Request) error { return http.ErrUseLastResponse },
}

func (w *GCSWorld) doRemote(q HReq) *HResp {
	target := w.remote.URL + q.Path
	if len(q.Query) > 0 {
		target += "?" + q.Query.Encode()
	}
	body := q.Body
	hdr := map[string]string{}
	for k, v := range q.Headers {
		hdr[k] = v
	}
	if q.Gzip {
		var zb bytes.Buffer
		zw := gzip.NewWriter(&zb)
		zw.Write(body)
		zw.Close()
		body = zb.Bytes()
		hdr["Content-Encoding"] = "gzip"
	}
	req, err := http.NewRequest(q.Method, target, bytes.NewReader(body))
	if err != nil {
		harnessErr("cannot build remote request %s: %v", q, err)
	}
	for k, v := range hdr {
		req.Header.Set(k, v)
	}
	res, err := remoteClient.Do(req)
	if err != nil {
		// the server dropped the connection (net/http does that when a handler panics)
		return &HResp{Status: 0, Header: http.Header{}, Body: []byte("transport error: " + err.Error())}
	}
	defer res.Body.Close()
	b, _ := io.ReadAll(res.Body)
	return &HResp{Status: res.StatusCode, Header: res.Header, Body: b}
}

type yStore struct {
	in gcsemu.Store
	// FailBefore, when set, may inject a fail-stop error before a store call.
	FailBefore func(method string) error
}

func (s *yStore) pre(m string) error {
	hookYield("store." + m)
	if s.FailBefore != nil {
		return s.FailBefore(m)
	}
	return nil
}

func (s *yStore) CreateBucket(b string) error {
	if err := s.pre("CreateBucket"); err != nil {
		return err
	}
	return s.in.CreateBucket(b)
}
func (s *yStore) GetBucketMeta(u gcsemu.HttpBaseUrl, b string) (*storage.Bucket, error) {
	if err := s.pre("GetBucketMeta"); err != nil {
		return nil, err
	}
	return s.in.GetBucketMeta(u, b)
}
func (s *yStore) Get(u gcsemu.HttpBaseUrl, b, f string) (*storage.Object, []byte, error) {
	if err := s.pre("Get"); err != nil {
		return nil, nil, err
	}
	return s.in.Get(u, b, f)
}
func (s *yStore) GetMeta(u gcsemu.HttpBaseUrl, b, f string) (*storage.Object, error) {
	if err := s.pre("GetMeta"); err != nil {
		return nil, err
	}
	return s.in.GetMeta(u, b, f)
}
func (s *yStore) Add(b, f string, c []byte, m *storage.Object) error {
	if err := s.pre("Add"); err != nil {
		return err
	}
	return s.in.Add(b, f, c, m)
}
func (s *yStore) UpdateMeta(b, f string, m *storage.Object, mg int64) error {
	if err := s.pre("UpdateMeta"); err != nil {
		return err
	}
	return s.in.UpdateMeta(b, f, m, mg)
}
func (s *yStore) Copy(sb, sf, db, df string) (bool, error) {
	if err := s.pre("Copy"); err != nil {
		return false, err
	}
	return s.in.Copy(sb, sf, db, df)
}
func (s *yStore) Delete(b, f string) error {
	if err := s.pre("Delete"); err != nil {
		return err
	}
	return s.in.Delete(b, f)
}
func (s *yStore) ReadMeta(u gcsemu.HttpBaseUrl, b, f string, fi os.FileInfo) (*storage.Object, error) {
	if err := s.pre("ReadMeta"); err != nil {
		return nil, err
	}
	return s.in.ReadMeta(u, b, f, fi)
}
func (s *yStore) Walk(ctx context.Context, b string, cb func(ctx context.Context, filename string, fInfo os.FileInfo) error) error {
	if err := s.pre("Walk"); err != nil {
		return err
	}
	return s.in.Walk(ctx, b, cb)
}

// checks whose runs are sequential and fault-free on the GCS side
var gcsRawStoreProps = map[string]bool{"C02": true, "C04": true, "C09": true, "C10": true, "C11": true, "C15": true}

func NewGCSWorld(r *Run, store string, dir string, clk *Clock) *GCSWorld {
	w := &GCSWorld{r: r, Store: store, Dir: dir, Clk: clk}
	simClk = clk
	var st gcsemu.Store
	switch store {
	case "mem":
		st = gcsemu.NewMemStore()
	case "file":
		if w.Dir == "" {
			w.Dir = scratchDir("gcs-")
		}
		st = gcsemu.NewFileStore(w.Dir)
	default:
		harnessErr("unknown store %q", store)
	}
	w.ys = &yStore{in: st}
	var used gcsemu.Store = w.ys
	if r != nil && gcsRawStoreProps[r.Prop] && (r.Index/2)%2 == 1 {
		// The wrapper (scheduling points, injected store errors) hides whatever optional
		// interfaces the store may implement beyond gcsemu.Store. The sequential checks need
		// neither scheduling points nor injected errors, so half of their runs hand the emulator
		// the store itself.
		used = st
		r.Probe("gcs.unwrapped_store")
	}
	w.emu = gcsemu.NewGcsEmu(gcsemu.Options{Store: used, Log: func(err error, f string, a ...interface{}) {
		if len(w.Logs) < 50 {
			w.Logs = append(w.Logs, fmt.Sprintf(f, a...))
		}
	}})
	w.mux = http.NewServeMux()
	w.emu.Register(w.mux)
	return w
}

func (w *GCSWorld) Destroy() {
	if w.Dir != "" {
		os.RemoveAll(w.Dir)
	}
}

// Restart drops the instance and builds a new one on the same directory (file store): a kill
// between requests. Pending resumable uploads die with the instance.
func (w *GCSWorld) Restart() *GCSWorld {
	return NewGCSWorld(w.r, w.Store, w.Dir, w.Clk)
}

type HResp struct {
	Status int
	Header http.Header
	Body   []byte
}

func (h *HResp) JSON() map[string]interface{} {
	var m map[string]interface{}
	if err := json.Unmarshal(h.Body, &m); err != nil {
		return nil
	}
	return m
}

type HReq struct {
	Method  string
	Path    string // escaped path
	Query   url.Values
	Headers map[string]string
	Body    []byte
	Ctx     context.Context
	Gzip    bool
}

func (q HReq) String() string {
	s := q.Method + " " + q.Path
	if len(q.Query) > 0 {
		s += "?" + q.Query.Encode()
	}
	var hs []string
	for k, v := range q.Headers {
		hs = append(hs, k+": "+v)
	}
	sort.Strings(hs)
	if len(hs) > 0 {
		s += " {" + strings.Join(hs, "; ") + "}"
	}
	if len(q.Body) > 0 {
		s += fmt.Sprintf(" body=%s", shortVal(string(q.Body)))
	}
	return s
}

// rawRequest renders the request as bytes and parses it with the real HTTP parser.
func (q HReq) build() (*http.Request, error) {
	var b bytes.Buffer
	target := q.Path
	if len(q.Query) > 0 {
		target += "?" + q.Query.Encode()
	}
	body := q.Body
	fmt.Fprintf(&b, "%s %s HTTP/1.1\r\nHost: gcs.test\r\n", q.Method, target)
	var hs []string
	for k := range q.Headers {
		hs = append(hs, k)
	}
	sort.Strings(hs)
	if q.Gzip {
		var zb bytes.Buffer
		zw := gzip.NewWriter(&zb)
		zw.Write(body)
		zw.Close()
		body = zb.Bytes()
		fmt.Fprintf(&b, "Content-Encoding: gzip\r\n")
	}
	for _, k := range hs {
		fmt.Fprintf(&b, "%s: %s\r\n", k, q.Headers[k])
	}
	fmt.Fprintf(&b, "Content-Length: %d\r\n\r\n", len(body))
	b.Write(body)
	return http.ReadRequest(bufio.NewReader(&b))
}

// Do sends a request through the real mux. Panics propagate (net/http would swallow them).
func (w *GCSWorld) Do(q HReq) *HResp {
	if w.remote != nil {
		return w.doRemote(q)
	}
	req, err := q.build()
	if err != nil {
		harnessErr("cannot build request %s: %v", q, err)
	}
	if q.Ctx != nil {
		req = req.WithContext(q.Ctx)
	} else if w.ctx != nil {
		req = req.WithContext(w.ctx)
		w.ctx = nil
	}
	// the request body arrives over the network: every read of it is a scheduling point
	// (a slow client), and the first read delivers only part of what was asked for
	req.Body = &slowBody{in: req.Body}
	rec := httptest.NewRecorder()
	w.mux.ServeHTTP(rec, req)
	res := rec.Result()
	return &HResp{Status: res.StatusCode, Header: res.Header, Body: rec.Body.Bytes()}
}

type slowBody struct {
	in io.ReadCloser
	n  int
}

func (b *slowBody) Read(p []byte) (int, error) {
	if b.n < 3 {
		b.n++
		hookYield("net.body.read")
		if b.n == 1 && len(p) > 1 {
			p = p[:(len(p)+1)/2]
		}
	}
	return b.in.Read(p)
}

func (b *slowBody) Close() error { return b.in.Close() }

// ---- URL helpers ----------------------------------------------------------------------------

func escName(name string) string {
	// escape every segment but keep '/' (object names may contain slashes)
	parts := strings.Split(name, "/")
	for i, p := range parts {
		parts[i] = url.PathEscape(p)
	}
	return strings.Join(parts, "/")
}

func objPath(bucket, name string) string {
	return "/storage/v1/b/" + url.PathEscape(bucket) + "/o/" + escName(name)
}

func condQuery(c gConds) url.Values {
	q := url.Values{}
	set := func(k string, v *string) {
		if v != nil {
			q.Set(k, *v)
		}
	}
	set("ifGenerationMatch", c.GenMatch)
	set("ifGenerationNotMatch", c.GenNotMatch)
	set("ifMetagenerationMatch", c.MetaMatch)
	set("ifMetagenerationNotMatch", c.MetaNotMatch)
	return q
}

func mergeQ(a, b url.Values) url.Values {
	o := url.Values{}
	for k, v := range a {
		o[k] = v
	}
	for k, v := range b {
		o[k] = v
	}
	return o
}

// gConds: precondition parameters as sent (strings so that junk can be expressed).
type gConds struct {
	GenMatch, GenNotMatch, MetaMatch, MetaNotMatch *string
}

func (c gConds) String() string {
	var p []string
	add := func(n string, v *string) {
		if v != nil {
			p = append(p, n+"="+*v)
		}
	}
	add("ifGenerationMatch", c.GenMatch)
	add("ifGenerationNotMatch", c.GenNotMatch)
	add("ifMetagenerationMatch", c.MetaMatch)
	add("ifMetagenerationNotMatch", c.MetaNotMatch)
	return strings.Join(p, "&")
}

func sp(s string) *string { return &s }
func ip(n int64) *string  { return sp(strconv.FormatInt(n, 10)) }

func md5b64(b []byte) string {
	h := md5.Sum(b)
	return base64.StdEncoding.EncodeToString(h[:])
}

// ---- observed object metadata ---------------------------------------------------------------

type gMeta struct {
	Name, Bucket                                                   string
	ContentType                                                    string
	Size                                                           int64
	Md5                                                            string
	Gen, Metagen                                                   int64
	Metadata                                                       map[string]string
	CacheControl, ContentDisposition, ContentEncoding, ContentLang string
	TimeCreated, Updated                                           string
	Raw                                                            map[string]interface{}
}

func num(v interface{}) int64 {
	switch x := v.(type) {
	case string:
		n, _ := strconv.ParseInt(x, 10, 64)
		return n
	case float64:
		return int64(x)
	}
	return 0
}

func str(v interface{}) string {
	s, _ := v.(string)
	return s
}

func parseMeta(m map[string]interface{}) *gMeta {
	if m == nil {
		return nil
	}
	g := &gMeta{Raw: m, Name: str(m["name"]), Bucket: str(m["bucket"]), ContentType: str(m["contentType"]), Size: num(m["size"]), Md5: str(m["md5Hash"]),
		Gen: num(m["generation"]), Metagen: num(m["metageneration"]), CacheControl: str(m["cacheControl"]), ContentDisposition: str(m["contentDisposition"]),
		ContentEncoding: str(m["contentEncoding"]), ContentLang: str(m["contentLanguage"]), TimeCreated: str(m["timeCreated"]), Updated: str(m["updated"])}
	if md, ok := m["metadata"].(map[string]interface{}); ok {
		g.Metadata = map[string]string{}
		for k, v := range md {
			g.Metadata[k] = str(v)
		}
	}
	return g
}

func (g *gMeta) String() string {
	if g == nil {
		return "<none>"
	}
	var ks []string
	for k, v := range g.Metadata {
		ks = append(ks, k+"="+v)
	}
	sort.Strings(ks)
	return fmt.Sprintf("{%s/%s gen=%d metagen=%d size=%d md5=%s ct=%q meta=%v cc=%q cd=%q ce=%q cl=%q}", g.Bucket, g.Name, g.Gen, g.Metagen, g.Size, g.Md5, g.ContentType, ks, g.CacheControl, g.ContentDisposition, g.ContentEncoding, g.ContentLang)
}

// ---- basic requests -------------------------------------------------------------------------

func (w *GCSWorld) CreateBucket(name string) *HResp {
	b, _ := json.Marshal(map[string]string{"name": name})
	return w.Do(HReq{Method: "POST", Path: "/storage/v1/b", Query: url.Values{"project": {"p"}}, Headers: map[string]string{"Content-Type": "application/json"}, Body: b})
}

func (w *GCSWorld) GetMeta(bucket, name string) *HResp {
	return w.Do(HReq{Method: "GET", Path: objPath(bucket, name)})
}

// media download forms: 0 JSON API alt=media, 1 /download/ prefix, 2 public URL
func (w *GCSWorld) GetMedia(bucket, name string, form int) *HResp {
	switch form {
	case 1:
		return w.Do(HReq{Method: "GET", Path: "/download" + objPath(bucket, name), Query: url.Values{"alt": {"media"}}})
	case 2:
		return w.Do(HReq{Method: "GET", Path: "/" + url.PathEscape(bucket) + "/" + escName(name)})
	}
	return w.Do(HReq{Method: "GET", Path: objPath(bucket, name), Query: url.Values{"alt": {"media"}}})
}

func (w *GCSWorld) Delete(bucket, name string, c gConds) *HResp {
	return w.doMaybeBatched(HReq{Method: "DELETE", Path: objPath(bucket, name), Query: condQuery(c)})
}

func (w *GCSWorld) Patch(bucket, name string, body map[string]interface{}, c gConds) *HResp {
	b, _ := json.Marshal(body)
	return w.doMaybeBatched(HReq{Method: "PATCH", Path: objPath(bucket, name), Query: mergeQ(condQuery(c), url.Values{"alt": {"json"}}), Headers: map[string]string{"Content-Type": "application/json"}, Body: b})
}

// ViaBatch, when set, sends the next metadata PATCH or DELETE as the only part of a
// POST /batch/storage/v1 request and returns the sub-response (consumed by that request).
func (w *GCSWorld) doMaybeBatched(q HReq) *HResp {
	if !w.ViaBatch {
		return w.Do(q)
	}
	w.ViaBatch = false
	target := q.Path
	if len(q.Query) > 0 {
		target += "?" + q.Query.Encode()
	}
	var body bytes.Buffer
	fmt.Fprintf(&body, "--batch_v\r\nContent-Type: application/http\r\nContent-ID: <item0>\r\n\r\n%s %s HTTP/1.1\r\n", q.Method, target)
	for k, v := range q.Headers {
		fmt.Fprintf(&body, "%s: %s\r\n", k, v)
	}
	fmt.Fprintf(&body, "Content-Length: %d\r\n\r\n", len(q.Body))
	body.Write(q.Body)
	body.WriteString("\r\n--batch_v--\r\n")
	resp := w.Do(HReq{Method: "POST", Path: "/batch/storage/v1", Headers: map[string]string{"Content-Type": "multipart/mixed; boundary=batch_v"}, Body: body.Bytes()})
	if resp.Status != 200 {
		return resp
	}
	_, params, err := mime.ParseMediaType(resp.Header.Get("Content-Type"))
	if err != nil || params["boundary"] == "" {
		return &HResp{Status: 0, Header: http.Header{}, Body: []byte("batch response without a multipart content type")}
	}
	p, err := multipart.NewReader(bytes.NewReader(resp.Body), params["boundary"]).NextPart()
	if err != nil {
		return &HResp{Status: 0, Header: http.Header{}, Body: []byte("batch response without a part: " + err.Error())}
	}
	sub, err := http.ReadResponse(bufio.NewReader(p), nil)
	if err != nil {
		return &HResp{Status: 0, Header: http.Header{}, Body: []byte("batch sub-response unreadable: " + err.Error())}
	}
	sb, _ := io.ReadAll(sub.Body)
	return &HResp{Status: sub.StatusCode, Header: sub.Header, Body: sb}
}

type listPage struct {
	Items    []*gMeta
	Prefixes []string
	Next     string
}

func (w *GCSWorld) ListPage(bucket string, q url.Values) (*HResp, *listPage) {
	resp := w.Do(HReq{Method: "GET", Path: "/storage/v1/b/" + url.PathEscape(bucket) + "/o", Query: q})
	if resp.Status != 200 {
		return resp, nil
	}
	m := resp.JSON()
	if m == nil {
		return resp, nil
	}
	lp := &listPage{Next: str(m["nextPageToken"])}
	if items, ok := m["items"].([]interface{}); ok {
		for _, it := range items {
			if im, ok := it.(map[string]interface{}); ok {
				lp.Items = append(lp.Items, parseMeta(im))
			}
		}
	}
	if ps, ok := m["prefixes"].([]interface{}); ok {
		for _, p := range ps {
			lp.Prefixes = append(lp.Prefixes, str(p))
		}
	}
	return resp, lp
}

// ---- uploads --------------------------------------------------------------------------------

type upSpec struct {
	Bucket, Name string
	Content      []byte
	ContentType  string
	Metadata     map[string]string
	Md5          string // declared MD5 ("" = none)
	Conds        gConds
	Gzip         bool
	Extra        map[string]interface{} // further metadata fields (cacheControl ...)
}

func (u upSpec) metaJSON() []byte {
	m := map[string]interface{}{"name": u.Name}
	if u.ContentType != "" {
		m["contentType"] = u.ContentType
	}
	if u.Md5 != "" {
		m["md5Hash"] = u.Md5
	}
	if len(u.Metadata) > 0 {
		m["metadata"] = u.Metadata
	}
	for k, v := range u.Extra {
		m[k] = v
	}
	b, _ := json.Marshal(m)
	return b
}

func upPath(bucket string) string { return "/upload/storage/v1/b/" + url.PathEscape(bucket) + "/o" }

func (w *GCSWorld) UploadMedia(u upSpec) *HResp {
	q := mergeQ(condQuery(u.Conds), url.Values{"uploadType": {"media"}, "name": {u.Name}})
	h := map[string]string{}
	if u.ContentType != "" {
		h["Content-Type"] = u.ContentType
	}
	return w.Do(HReq{Method: "POST", Path: upPath(u.Bucket), Query: q, Headers: h, Body: u.Content, Gzip: u.Gzip})
}

func (w *GCSWorld) UploadMultipart(u upSpec) *HResp {
	bd := "sim_boundary_7f3a"
	for bytes.Contains(u.Content, []byte(bd)) || bytes.Contains(u.metaJSON(), []byte(bd)) {
		bd += "x" // a client picks a boundary that does not occur in the parts
	}
	var b bytes.Buffer
	fmt.Fprintf(&b, "--%s\r\nContent-Type: application/json; charset=UTF-8\r\n\r\n", bd)
	b.Write(u.metaJSON())
	ct := u.ContentType
	if ct == "" {
		ct = "application/octet-stream"
	}
	fmt.Fprintf(&b, "\r\n--%s\r\nContent-Type: %s\r\n\r\n", bd, ct)
	b.Write(u.Content)
	fmt.Fprintf(&b, "\r\n--%s--\r\n", bd)
	q := mergeQ(condQuery(u.Conds), url.Values{"uploadType": {"multipart"}})
	return w.Do(HReq{Method: "POST", Path: upPath(u.Bucket), Query: q, Headers: map[string]string{"Content-Type": "multipart/related; boundary=" + bd}, Body: b.Bytes(), Gzip: u.Gzip})
}

// ResumableStart initiates a resumable upload; returns the upload id ("" on failure).
func (w *GCSWorld) ResumableStart(u upSpec) (*HResp, string) {
	q := mergeQ(condQuery(u.Conds), url.Values{"uploadType": {"resumable"}})
	resp := w.Do(HReq{Method: "POST", Path: upPath(u.Bucket), Query: q, Headers: map[string]string{"Content-Type": "application/json"}, Body: u.metaJSON()})
	loc := resp.Header.Get("Location")
	id := ""
	if i := strings.Index(loc, "upload_id="); i >= 0 {
		id = loc[i+len("upload_id="):]
	}
	return resp, id
}

// ResumableChunk sends [lo,hi] of total (total<0: unknown "*"); lo<0: status query "bytes */total".
func (w *GCSWorld) ResumableChunk(bucket, id string, data []byte, lo, total int64, gz bool) *HResp {
	cr := ""
	tot := "*"
	if total >= 0 {
		tot = strconv.FormatInt(total, 10)
	}
	if lo < 0 {
		cr = "bytes */" + tot
		data = nil
	} else {
		cr = fmt.Sprintf("bytes %d-%d/%s", lo, lo+int64(len(data))-1, tot)
	}
	return w.Do(HReq{Method: "PUT", Path: upPath(bucket), Query: url.Values{"upload_id": {id}}, Headers: map[string]string{"Content-Range": cr}, Body: data, Gzip: gz && len(data) > 0})
}

// rangeEnd parses "bytes=0-N" -> N+1 (bytes received); absent or unparsable -> 0.
func rangeEnd(h string) int64 {
	if !strings.HasPrefix(h, "bytes=0-") {
		return 0
	}
	n, err := strconv.ParseInt(h[len("bytes=0-"):], 10, 64)
	if err != nil || n < 0 {
		return 0
	}
	return n + 1
}
