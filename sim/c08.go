package main

import (
	"fmt"
	"os"
	"sort"
	"strings"

	btapb "cloud.google.com/go/bigtable/admin/apiv2/adminpb"
	btpb "cloud.google.com/go/bigtable/apiv2/bigtablepb"
)

// C08: the disk engine recovers exactly the acknowledged state after a process kill at any
// scheduling point (request boundaries, engine calls, every goleveldb file operation incl. torn
// writes, every system call of the table-definition write and of table clear/create, and during
// recovery itself), over 1-3 crash/restart cycles.

func init() {
	register(&PropDef{
		ID: "C08", Level: "fault_enumeration", Quick: 6000, Thorough: 120000, QuickCap: 120, PerProc: 400,
		Rule:   "each run = an admin+data program on the disk engine (create/delete/re-create tables, family create/update/drop with GC rules, MutateRow(s), ReadModifyWrite, DropRowRange prefix/all), optionally a second client on another table so that two requests are in flight, and 1-3 crash/restart cycles; the crash lands on a scheduling point drawn from the fault stream (thorough tier: for each program every crash index 0..191 of the first epoch is tried) or is a clean stop; the image is a byte copy of the directory taken while no file operation is in progress; the new server must start and serve the acknowledged state with every in-flight request wholly applied or wholly absent (MutateRows: a prefix of its entries); distinct = trace hash; non-trivial = the crash landed inside a request (not on a request boundary). A sixth of the quick runs (one program slot in 256 of the thorough tier) is the concurrent-administration sub-workload: 2-3 clients create, delete, re-create, change the schema of and write the SAME two tables under the seeded scheduler, every request acknowledged, then a kill between requests or a clean stop; the restarted emulator must serve exactly the state the old one served at that quiescent point",
		Real:   []string{"bttest.NewServerWithOptions start-up (GetTables, Open), LeveldbDiskStorage (SetTableMeta tmp+rename, Create, DeleteTable, newDiskDb/RemoveAll), leveldbRows, goleveldb journal/manifest/table files on a real file system", "all admin and data handlers"},
		Stub:   []string{"process kill = directory image at a scheduling point; the dead instance is drained and closed", "os.WriteFile / os.RemoveAll executed one system call at a time through the tagged fs* seams", "gRPC transport (direct calls)"},
		Assume: []string{"process-kill semantics: every completed system call survives (no power loss / page-cache loss is claimed by the property)", "goleveldb background goroutines have no work at these data volumes; their file operations are nevertheless excluded from images in progress by a read/write lock"},
		Run:    runC08,
	})
	expectedProbes["C08"] = []string{"c08.crash_inside_request", "c08.families_recreated_after_restart", "c08.crash_aimed_at_io_point", "c08.crash_boundary", "c08.clean_stop", "c08.crash_during_recovery", "c08.torn_write", "c08.inflight_applied", "c08.inflight_absent", "c08.crash_in_meta_write", "c08.crash_in_removeall", "c08.second_cycle", "c08.two_inflight", "c08.concurrent_admin_restart_equal"}
}

type inflightOp struct {
	op  btOp
	now int64
}

// modelApply applies the effect of op to m as if it succeeded (invalid requests change nothing).
// For MutateRows, upTo limits the number of entries applied (-1 = all). Where the model leaves
// open whether a mutation list is applied or rejected (altErr: an empty delete range), rejectAlt
// selects the "rejected" alternative; the caller tries both.
func modelApply(m *btModel, op btOp, now int64, upTo int, rejectAlt bool) {
	t := m.Tables[op.Table]
	switch op.Kind {
	case "CreateTable":
		name := op.Parent + "/tables/" + op.TableID
		if _, ok := m.Tables[name]; ok {
			return
		}
		nt := newMTable()
		for f, g := range op.Fams {
			nt.Fams[f] = g
		}
		m.Tables[name] = nt
		return
	}
	if t == nil {
		return
	}
	switch op.Kind {
	case "MutateRow":
		o := t.applyMutations(t.row(op.Key), op.Muts, now)
		if o.err == nil && !o.either && !(o.altErr && rejectAlt) {
			t.setRow(op.Key, o.row)
		}
	case "MutateRows":
		for i, e := range op.Entries {
			if upTo >= 0 && i >= upTo {
				break
			}
			o := t.applyMutations(t.row(e.Key), e.Muts, now)
			if o.err == nil && !o.either && !(o.altErr && rejectAlt) {
				t.setRow(e.Key, o.row)
			}
		}
	case "RMW":
		nr, _, err, either := t.rmw(t.row(op.Key), op.Rules, now)
		if err == nil && !either {
			t.setRow(op.Key, nr)
		}
	case "DeleteTable":
		delete(m.Tables, op.Table)
	case "Modify":
		// via step with a synthetic OK response is not possible; replicate all-or-none
		fams := map[string]*btapb.GcRule{}
		for f, g := range t.Fams {
			fams[f] = g
		}
		var dropped []string
		for _, mod := range op.Mods {
			_, exists := fams[mod.Id]
			switch {
			case mod.GetCreate() != nil:
				if exists {
					return
				}
				fams[mod.Id] = mod.GetCreate().GcRule
			case mod.GetUpdate() != nil:
				if !exists {
					return
				}
				fams[mod.Id] = mod.GetUpdate().GcRule
			case mod.GetDrop():
				if !exists {
					return
				}
				delete(fams, mod.Id)
				dropped = append(dropped, mod.Id)
			default:
				return
			}
		}
		t.Fams = fams
		for _, f := range dropped {
			for k, row := range t.Rows {
				delete(row, f)
				t.setRow(k, row)
			}
		}
	case "DropPrefix":
		for k := range t.Rows {
			if strings.HasPrefix(k, op.Prefix) {
				delete(t.Rows, k)
			}
		}
	case "DropAll":
		t.Rows = map[string]mRow{}
	}
}

func modelString(m *btModel) string {
	var sb strings.Builder
	for _, n := range m.tableNames() {
		t := m.Tables[n]
		fmt.Fprintf(&sb, "%s %s %s\n", shortTable(n), famsString(t.Fams), rowsString(t.render()))
	}
	return sb.String()
}

// observeAll reads the whole visible state of a world into a model.
func observeAll(w *BTWorld) (*btModel, error) {
	m := newBTModel()
	for _, p := range append(append([]string(nil), c14Parents...), "projects/p/instances/side") {
		names, err := w.ListTables(p)
		if err != nil {
			return nil, fmt.Errorf("ListTables %s: %v", p, err)
		}
		for _, n := range names {
			t, err := w.GetTable(n)
			if err != nil {
				return nil, fmt.Errorf("GetTable %s: %v", n, err)
			}
			mt := newMTable()
			mt.Fams = famsOf(t)
			rr := w.ReadAll(n)
			if rr.Err != nil || rr.Bad != nil {
				return nil, fmt.Errorf("ReadRows %s: %v %v", n, rr.Err, rr.Bad)
			}
			for _, row := range rr.Rows {
				if err := checkRowShape(row, false); err != nil {
					return nil, err
				}
				mt.Rows[row.Key] = rowFromORow(row)
			}
			m.Tables[n] = mt
		}
	}
	return m, nil
}

// candidates enumerates the admissible recovered states: every in-flight request wholly applied
// or wholly absent (MutateRows: any prefix of its entries).
func candidates(snapshot *btModel, infl []inflightOp) []*btModel {
	cands := []*btModel{snapshot.clone()}
	for _, io := range infl {
		var next []*btModel
		for _, c := range cands {
			next = append(next, c)
			for _, rejectAlt := range []bool{false, true} {
				if io.op.Kind == "MutateRows" {
					for k := 1; k <= len(io.op.Entries); k++ {
						a := c.clone()
						modelApply(a, io.op, io.now, k, rejectAlt)
						next = append(next, a)
					}
				} else {
					a := c.clone()
					modelApply(a, io.op, io.now, -1, rejectAlt)
					next = append(next, a)
				}
			}
		}
		cands = next
	}
	return cands
}

// partialWitness recognises the two recorded multi-step requests (DESIGN.md section 9, F13): a
// DropRowRange(prefix) or a family drop that was in flight and is found half applied.
func partialWitness(obs, snapshot *btModel, infl []inflightOp) string {
	for _, io := range infl {
		t := snapshot.Tables[io.op.Table]
		o := obs.Tables[io.op.Table]
		if t == nil || o == nil {
			continue
		}
		switch io.op.Kind {
		case "DropPrefix":
			// observed = snapshot with a strict, non-empty subset of the prefix rows removed
			removed, kept := 0, 0
			ok := famsString(t.Fams) == famsString(o.Fams)
			for k, row := range t.Rows {
				or, present := o.Rows[k]
				if strings.HasPrefix(k, io.op.Prefix) {
					if present {
						kept++
						ok = ok && equalRows(or.render(k), row.render(k))
					} else {
						removed++
					}
				} else {
					ok = ok && present && equalRows(or.render(k), row.render(k))
				}
			}
			if ok && removed > 0 && kept > 0 && len(o.Rows) == len(t.Rows)-removed {
				return "inflight-droprowrange-prefix-partial"
			}
		case "Modify":
			// observed = snapshot schema, every row either untouched or purged of the dropped
			// families, at least one row purged
			drop := map[string]bool{}
			for _, mod := range io.op.Mods {
				if mod.GetDrop() {
					drop[mod.Id] = true
				}
			}
			if len(drop) == 0 || famsString(t.Fams) != famsString(o.Fams) {
				continue
			}
			// a request may drop several families: they are purged one after the other, so a row
			// may have lost any subset of them (still none of the families it was not told to drop)
			var dropped []string
			for f := range drop {
				dropped = append(dropped, f)
			}
			sort.Strings(dropped)
			ok, purged := true, 0
			for k, row := range t.Rows {
				or, present := o.Rows[k]
				matched := false
				for mask := 0; mask < 1<<uint(len(dropped)) && !matched; mask++ {
					p := row.clone()
					for i, f := range dropped {
						if mask&(1<<uint(i)) != 0 {
							delete(p, f)
						}
					}
					p.prune()
					switch {
					case present && !p.empty() && equalRows(or.render(k), p.render(k)):
						matched = true
					case !present && p.empty():
						matched = true
					}
					if matched && !(present && equalRows(or.render(k), row.render(k))) {
						purged++
					}
				}
				if !matched {
					ok = false
				}
			}
			for k := range o.Rows {
				if _, in := t.Rows[k]; !in {
					ok = false
				}
			}
			if ok && purged > 0 {
				return "inflight-family-drop-partial"
			}
		}
	}
	return ""
}

func runC08(r *Run) {
	cfg := r.T.S("cfg")
	if r.Tier != "thorough" && (cfg.Intn(6) == 5 || (r.Index >= 4 && r.Index < 10)) {
		c08ConcurrentAdmin(r, cfg)
		return
	}
	if r.Tier == "thorough" && r.Index%64 == 63 && (r.Index/64)%4 == 0 {
		c08ConcurrentAdmin(r, cfg)
		return
	}
	fault := r.T.S("fault")
	if r.Tier == "thorough" {
		// 64 consecutive run indices share one program and differ in the crash point
		pid := uint64(r.Index / 64)
		for _, n := range []string{"cfg", "prog.0", "prog.1", "clock"} {
			r.T.SeedStream(n, splitmix(r.Master^0xc08^pid))
		}
	}
	nOps := 2 + cfg.Intn(18)
	twoClients := cfg.Intn(2) == 1
	// a third of the runs: after every restart, first create again every family of the name
	// universe that a table does not have, and read the table - "dropped families do not reappear"
	// (cells of a dropped family that survived on disk are invisible until then)
	probeFamilies := cfg.Intn(3) == 0
	cycles := 1 + cfg.Intn(3)
	clk := NewClock(1_700_000_000_000_000+int64(cfg.Intn(1000)), 1_700_000_000_000_000_000)
	ldbYieldOn = true
	simChoose = r.T.S("fault.order")
	tornN := 0
	ldbTear = func(path string, n int) int {
		if fault.Intn(4) == 3 {
			tornN++
			return 1 + fault.Intn(n-1)
		}
		return 0
	}
	defer func() { ldbYieldOn, simChoose, ldbTear = false, nil, nil }()

	dir := scratchDir("bt-c08-")
	r.Defer(func() { os.RemoveAll(dir) })
	model := newBTModel() // acknowledged state
	mix := cfg.Intn(len(c14Mixes))
	gen := makeC14GenMix(r, mix)
	ps0 := r.T.S("prog.0")
	ps1 := r.T.S("prog.1")
	issued := 0
	snapshot := newBTModel()
	var pending []inflightOp
	var crashInfo []string
	const sideTbl = "projects/p/instances/side/tables/s"
	sideGen := &btGen{fams: []string{"f1"}, unknown: "nofam"}

	for epoch := 0; epoch < 8; epoch++ {
		s := r.NewSched()
		s.Budget = 200000
		crashAt := -1
		crashAtIO := -1 // kill at the n-th step that finds a task parked inside file-system or engine I/O
		ioSteps := 0
		clean := false
		if epoch < cycles {
			switch {
			case r.Tier == "thorough" && epoch == 0 && r.Index%2 == 0:
				crashAt = (r.Index/2%64)*3 + fault.Intn(3)
			default:
				switch fault.Weighted([]int{3, 2, 1, 3}) {
				case 3:
					// the instrumented points inside metadata persistence, table clear/create and
					// engine writes are few among all steps: aim at them directly
					crashAtIO = 1 + fault.Intn(60)
					crashAt = 0
				case 0:
					crashAt = fault.Intn(300)
				case 1:
					crashAt = 1 << 30 // at the end of the program: a kill between requests
				default:
					crashAt, clean = 1<<30, true
				}
			}
		}
		var w *BTWorld
		booted, crashed := false, false
		inflight := map[int]*inflightOp{}
		nextDir := ""
		takeImage := func(point string) {
			nextDir = scratchDir("bt-c08-")
			if err := imageDir(dir, nextDir); err != nil {
				harnessErr("image: %v", err)
			}
			crashed = true
			if booted {
				snapshot = model.clone()
				pending = nil
				var ids []int
				for id := range inflight {
					ids = append(ids, id)
				}
				sort.Ints(ids)
				for _, id := range ids {
					pending = append(pending, *inflight[id])
				}
				if len(pending) > 0 {
					r.Probe("c08.crash_inside_request")
					r.nontrivial = true
					if len(pending) > 1 {
						r.Probe("c08.two_inflight")
					}
				} else {
					r.Probe("c08.crash_boundary")
				}
			} else {
				r.Probe("c08.crash_during_recovery")
				r.nontrivial = true
			}
			if strings.HasPrefix(point, "fs.write") || strings.HasPrefix(point, "fs.rename") {
				r.Probe("c08.crash_in_meta_write")
			}
			if strings.HasPrefix(point, "fs.removeall") {
				r.Probe("c08.crash_in_removeall")
			}
			if point == "ldb.Write.torn" {
				r.Probe("c08.torn_write")
			}
			r.Fault("crash_" + map[bool]string{true: "internal", false: "boundary"}[len(pending) > 0 || !booted])
			crashInfo = append(crashInfo, fmt.Sprintf("epoch %d step %d at %s inflight=%d", epoch, s.Steps, point, len(pending)))
		}
		s.OnStep = func(s *Sched) {
			if crashed || crashAt < 0 || s.Steps < crashAt || crashAt == 1<<30 {
				return
			}
			// the point at which the tasks are parked: report the most specific one
			point := ""
			for _, t := range s.tasks {
				if t.state != tsDone && (strings.HasPrefix(t.point, "fs.") || strings.HasPrefix(t.point, "ldb.")) {
					point = t.point
				}
			}
			if crashAtIO > 0 {
				if point == "" {
					return
				}
				if ioSteps++; ioSteps < crashAtIO {
					return
				}
				r.Probe("c08.crash_aimed_at_io_point")
			}
			takeImage(point)
		}
		verified := false
		s.Go("main", func() {
			func() {
				defer func() {
					if x := recover(); x != nil {
						if _, ab := x.(abortRun); ab {
							panic(x)
						}
						st := stackNow()
						if hp, ok := x.(harnessPanic); ok || !underTest(st) {
							_ = hp
							panic(x)
						}
						r.Fail("restart-failed", "", "the emulator does not start on the directory left by the crash (%s): %v\n%s", strings.Join(crashInfo, "; "), x, trimStack(st))
					}
				}()
				w = NewBTWorld(r, engLdbDisk, clk, dir)
			}()
			if r.Failed() || crashed {
				return
			}
			if len(w.ErrLog) > 0 {
				r.Fail("restart-errlog", "", "start-up logged errors (%s): %v", strings.Join(crashInfo, "; "), w.ErrLog)
				return
			}
			if epoch > 0 {
				r.Probe("c08.second_cycle")
				obs, err := observeAll(w)
				if crashed {
					return
				}
				if err != nil {
					r.Fail("recovered-read-failed", "", "%v (%s)", err, strings.Join(crashInfo, "; "))
					return
				}
				os := modelString(obs)
				matched := -1
				cands := candidates(snapshot, pending)
				for i, c := range cands {
					if modelString(c) == os {
						matched = i
						break
					}
				}
				if matched < 0 {
					var ops []string
					for _, io := range pending {
						ops = append(ops, io.op.String())
					}
					r.Fail("recovered-state", partialWitness(obs, snapshot, pending), "after restart (%s) the served state is neither the acknowledged state nor that state plus whole in-flight requests\n  in flight: %v\n  acknowledged:\n%s  served:\n%s", strings.Join(crashInfo, "; "), ops, indent(modelString(snapshot)), indent(os))
					return
				}
				if len(pending) > 0 {
					if matched == 0 {
						r.Probe("c08.inflight_absent")
					} else {
						r.Probe("c08.inflight_applied")
					}
				}
				model = cands[matched]
				verified = true
			}
			booted = true
			if crashed {
				return
			}
			runClient := func(id int, ps *Stream, n int, genOp func(d *draws) btOp) {
				for i := 0; i < n && !crashed && !r.Failed(); i++ {
					d := record(ps, 96)
					op := genOp(d)
					if id == 0 {
						issued++
					}
					inflight[id] = &inflightOp{op: op, now: clk.ServerUs}
					resp := execOp(w, op)
					if crashed {
						return // the response of a request in flight at the crash is never delivered
					}
					delete(inflight, id)
					r.Hist(map[string]interface{}{"epoch": epoch, "client": id, "op": op.String(), "resp": resp})
					r.Mix(opShape(op))
					if k, msg := model.step(op, resp, clk.ServerUs); k != "" {
						r.Fail(k, "", "%s", msg)
						return
					}
					s.Yield("boundary")
				}
			}
			if twoClients {
				if model.Tables[sideTbl] == nil {
					create := btOp{Kind: "CreateTable", Parent: "projects/p/instances/side", TableID: "s", Fams: map[string]*btapb.GcRule{"f1": nil}}
					inflight[1] = &inflightOp{op: create, now: clk.ServerUs}
					resp := execOp(w, create)
					if crashed {
						return
					}
					delete(inflight, 1)
					if k, msg := model.step(create, resp, clk.ServerUs); k != "" {
						r.Fail(k, "", "%s", msg)
						return
					}
				}
				s.Go("side", func() {
					runClient(1, ps1, nOps, func(d *draws) btOp {
						switch d.w(3, 3, 2) {
						case 0:
							return btOp{Kind: "MutateRow", Table: sideTbl, Key: btRowKeys[d.n(4)], Muts: sideGen.mutations(d, 3, false)}
						case 1:
							op := btOp{Kind: "MutateRows", Table: sideTbl}
							ne := 1 + d.n(3)
							for e := 0; e < 3; e++ {
								en := entryIn{Key: btRowKeys[d.n(4)], Muts: sideGen.mutations(d, 2, false)}
								if e < ne {
									op.Entries = append(op.Entries, en)
								}
							}
							return op
						default:
							return btOp{Kind: "RMW", Table: sideTbl, Key: btRowKeys[d.n(4)], Rules: []*btpb.ReadModifyWriteRule{{FamilyName: "f1", ColumnQualifier: []byte("n"), Rule: &btpb.ReadModifyWriteRule_IncrementAmount{IncrementAmount: 1}}}}
						}
					})
				})
			}
			left := nOps - issued
			if epoch > 0 && left < 3 {
				left = 3
			}
			var probeQ []btOp
			if epoch > 0 && probeFamilies {
				for _, name := range model.tableNames() {
					if strings.Contains(name, "/instances/side/") {
						continue
					}
					var mods []*btapb.ModifyColumnFamiliesRequest_Modification
					for _, f := range c14Fams {
						if _, has := model.Tables[name].Fams[f]; !has {
							mods = append(mods, &btapb.ModifyColumnFamiliesRequest_Modification{Id: f, Mod: &btapb.ModifyColumnFamiliesRequest_Modification_Create{Create: &btapb.ColumnFamily{}}})
						}
					}
					if len(mods) > 0 {
						probeQ = append(probeQ, btOp{Kind: "Modify", Table: name, Mods: mods}, btOp{Kind: "ReadAll", Table: name})
					}
				}
				if len(probeQ) > 0 {
					r.Probe("c08.families_recreated_after_restart")
				}
				left += len(probeQ)
			}
			runClient(0, ps0, left, func(d *draws) btOp {
				if !twoClients {
					clockStep(r, clk, false) // with a second client in flight the clock stands still
				}
				if len(probeQ) > 0 {
					op := probeQ[0]
					probeQ = probeQ[1:]
					return op
				}
				return gen(d, model, issued)
			})
		})
		v := s.Run()
		r.FinishSched(s, v)
		_ = verified
		if r.Failed() {
			if w != nil {
				closeQuietly(w)
			}
			return
		}
		if !crashed && crashAt == 1<<30 {
			// end of program: clean stop or kill between requests
			if clean {
				r.Probe("c08.clean_stop")
				r.Fault("clean_stop")
				closeQuietly(w)
				w = nil
			}
			booted = true
			inflight = map[int]*inflightOp{}
			takeImage("boundary")
		}
		if w != nil {
			closeQuietly(w)
		}
		os.RemoveAll(dir)
		if !crashed {
			break
		}
		dir = nextDir
	}
	if tornN > 0 {
		r.Fault("torn_write_split")
	}
	r.Sample = map[string]interface{}{"ops": nOps, "two_clients": twoClients, "mix": mix, "cycles": cycles, "crashes": crashInfo, "final_state": modelString(model)}
}

func closeQuietly(w *BTWorld) {
	defer func() { recover() }()
	w.Close()
}

func indent(s string) string {
	var out []string
	for _, l := range strings.Split(strings.TrimRight(s, "\n"), "\n") {
		out = append(out, "    "+l)
	}
	return strings.Join(out, "\n") + "\n"
}
