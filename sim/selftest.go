package main

import (
	"encoding/json"
	"fmt"
	"os"
	"os/exec"
	"path/filepath"
	"strconv"
)

// Determinism self-test: the same run indices executed in fresh processes at GOMAXPROCS
// 1/4/16 must give identical trace+response hashes.
func cmdSelftest(args []string) int {
	ids := args
	n := 40
	if v := os.Getenv("VERIF_SELFTEST_N"); v != "" {
		n, _ = strconv.Atoi(v)
	}
	if len(ids) == 0 {
		ids = propIDs()
	}
	tmp, err := os.MkdirTemp(scratchRoot(), "verif-selftest-")
	if err != nil {
		fmt.Fprintln(os.Stderr, err)
		return 2
	}
	defer os.RemoveAll(tmp)
	bad := 0
	for _, id := range ids {
		if props[id] == nil {
			fmt.Fprintln(os.Stderr, "unknown property", id)
			return 2
		}
		var ref map[string]string
		for k, procs := range []string{"1", "4", "16", "2"} {
			out := filepath.Join(tmp, fmt.Sprintf("%s-%d.json", id, k))
			cmd := exec.Command(selfExe(), "worker", "-prop", id, "-tier", "quick", "-seed", strconv.FormatUint(masterSeed(), 10),
				"-from", "0", "-to", strconv.Itoa(n), "-step", "1", "-out", out, "-hashes")
			cmd.Env = append(os.Environ(), "GOMAXPROCS="+procs, "VERIF_SCRATCH_DIR="+tmp)
			cmd.Stderr = os.Stderr
			if err := cmd.Run(); err != nil {
				fmt.Fprintf(os.Stderr, "selftest %s: worker failed: %v\n", id, err)
				return 2
			}
			b, _ := os.ReadFile(out)
			var res WorkerResult
			if err := json.Unmarshal(b, &res); err != nil {
				return 2
			}
			if res.InfraErr != "" {
				fmt.Fprintf(os.Stderr, "selftest %s: %s\n", id, res.InfraErr)
				return 2
			}
			if ref == nil {
				ref = res.RunHashes
				continue
			}
			for i, h := range ref {
				if res.RunHashes[i] != h {
					fmt.Printf("NONDETERMINISM property=%s run_index=%s GOMAXPROCS=%s: %s vs %s\n", id, i, procs, h, res.RunHashes[i])
					bad++
				}
			}
		}
		fmt.Printf("selftest %s: %d runs x 4 processes (GOMAXPROCS 1/4/16/2) identical=%v\n", id, len(ref), bad == 0)
	}
	if bad > 0 {
		return 2
	}
	return 0
}
