package main

import (
	"fmt"
	"runtime/debug"
	"strings"
	"sync/atomic"
)

// Baton-passing scheduler: real goroutines, but exactly one task is runnable at any instant and
// the choice of who runs next is drawn from the "sched" choice stream.

type taskState int

const (
	tsReady taskState = iota
	tsBlocked
	tsDone
)

type Task struct {
	id           int
	name         string
	wake         chan struct{}
	state        taskState
	point        string
	blockedSince int
	prio         int
	started      bool
	goid         int64
	fn           func()
}

type Verdict struct {
	Kind string // "", "deadlock", "livelock", "panic"
	Msg  string
}

const (
	polUniform = iota
	polSticky
	polPCT
)

type Sched struct {
	tape   *Tape
	st     *Stream
	tasks  []*Task
	cur    *Task
	ctl    chan struct{}
	Steps  int
	Pre    int // preemptions: switches away from a task that could have continued
	Budget int
	hash   uint64
	trace  []string
	keep   bool // keep the textual trace (replay mode)
	// policy
	policy      int
	stickyDen   int
	pctChanges  map[int]bool
	lastProg    int
	running     bool
	aborted     bool
	panicV      *Verdict
	OnStep      func(s *Sched) // world events at scheduling points (runs on the scheduler goroutine)
	ExpectPanic func(task string, v interface{}) bool
	curPoint    string
	OnBlock     func(point string)
	atomic      int // >0: the running task's yields are no-ops (Atomic)
}

// Atomic runs f on the calling task without giving any other task a turn at its yields.
func (s *Sched) Atomic(f func()) {
	s.atomic++
	defer func() { s.atomic-- }()
	f()
}

func NewSched(t *Tape, keepTrace bool) *Sched {
	s := &Sched{tape: t, st: t.S("sched"), ctl: make(chan struct{}), Budget: 20000, keep: keepTrace, hash: 1469598103934665603}
	cfg := t.S("cfg.sched")
	s.policy = cfg.Intn(3)
	switch s.policy {
	case polSticky:
		s.stickyDen = []int{2, 4, 16}[cfg.Intn(3)]
	case polPCT:
		d := 1 + cfg.Intn(3)
		s.pctChanges = map[int]bool{}
		for i := 0; i < d; i++ {
			s.pctChanges[1+cfg.Intn(200)] = true
		}
	}
	return s
}

func (s *Sched) mix(x string) {
	for i := 0; i < len(x); i++ {
		s.hash ^= uint64(x[i])
		s.hash *= 1099511628211
	}
}

func (s *Sched) Hash() uint64 { return s.hash }
func (s *Sched) Trace() []string {
	return s.trace
}

// Go registers a new task. May be called before Run or from a running task / OnStep.
func (s *Sched) Go(name string, fn func()) *Task {
	t := &Task{id: len(s.tasks), name: name, wake: make(chan struct{}), fn: fn, point: "start"}
	t.prio = 1000 + s.tape.S("sched.prio").Intn(1000)
	s.tasks = append(s.tasks, t)
	return t
}

func (s *Sched) start(t *Task) {
	t.started = true
	go func() {
		<-t.wake
		t.goid = goid()
		defer func() {
			if r := recover(); r != nil {
				if _, ok := r.(abortRun); !ok {
					st := debug.Stack()
					if hp, ok := r.(harnessPanic); ok {
						if s.panicV == nil {
							s.panicV = &Verdict{Kind: "harness", Msg: string(hp)}
						}
					} else if !underTest(st) {
						if s.panicV == nil {
							s.panicV = &Verdict{Kind: "harness", Msg: fmt.Sprintf("task %s: %v\n%s", t.name, r, trimStack(st))}
						}
					} else if s.ExpectPanic == nil || !s.ExpectPanic(t.name, r) {
						if s.panicV == nil {
							s.panicV = &Verdict{Kind: "panic", Msg: fmt.Sprintf("task %s: %v\n%s", t.name, r, trimStack(st))}
						}
					}
				}
			}
			t.state = tsDone
			s.ctl <- struct{}{}
		}()
		t.fn()
	}()
}

type abortRun struct{}

func trimStack(b []byte) string {
	lines := strings.Split(string(b), "\n")
	var out []string
	for _, l := range lines {
		if strings.Contains(l, "runtime/debug") || strings.Contains(l, "runtime/panic") {
			continue
		}
		out = append(out, l)
		if len(out) > 40 {
			break
		}
	}
	return strings.Join(out, "\n")
}

// Running reports whether a scheduled run is in progress and the caller may yield.
func (s *Sched) Running() bool { return s != nil && s.running }

func (s *Sched) Yield(point string) {
	if s == nil || !s.running || s.cur == nil || s.aborted || s.atomic > 0 {
		return
	}
	t := s.cur
	t.point, t.state = point, tsReady
	s.ctl <- struct{}{}
	<-t.wake
	if s.aborted {
		panic(abortRun{})
	}
}

func (s *Sched) Block(point string) {
	if s != nil && s.aborted {
		panic(abortRun{})
	}
	if s == nil || !s.running || s.cur == nil {
		panic("sim: " + point + " would block outside a scheduled run")
	}
	if s.OnBlock != nil {
		s.OnBlock(point)
	}
	t := s.cur
	t.point, t.state, t.blockedSince = point, tsBlocked, s.Steps
	s.ctl <- struct{}{}
	<-t.wake
	if s.aborted {
		panic(abortRun{})
	}
}

// CurTask returns the name of the running task ("" outside a run).
func (s *Sched) CurTask() string {
	if s == nil || s.cur == nil {
		return ""
	}
	return s.cur.name
}

func (s *Sched) CurID() int {
	if s == nil || s.cur == nil {
		return -1
	}
	return s.cur.id
}

func (s *Sched) pick(runnable []*Task) *Task {
	curOK := false
	for _, t := range runnable {
		if t == s.cur && t.state == tsReady {
			curOK = true
		}
	}
	// order: current first (value 0 = continue), then by id
	var order []*Task
	if curOK {
		order = append(order, s.cur)
	}
	for _, t := range runnable {
		if !(curOK && t == s.cur) {
			order = append(order, t)
		}
	}
	// exactly one draw per scheduling point; 0 always means "continue" (or the lowest id)
	v := s.st.Intn(1 << 16)
	var next *Task
	switch s.policy {
	case polUniform:
		next = order[v%len(order)]
	case polSticky:
		if curOK && len(order) > 1 {
			if v%s.stickyDen == s.stickyDen-1 {
				next = order[1+(v/s.stickyDen)%(len(order)-1)]
			} else {
				next = order[0]
			}
		} else {
			next = order[v%len(order)]
		}
	case polPCT:
		if s.pctChanges[s.Steps] && s.cur != nil {
			s.cur.prio = -s.Steps // lower than all initial priorities
		}
		best := order[0]
		for _, t := range order {
			if t.prio > best.prio {
				best = t
			}
		}
		next = best
		if v%16 == 15 && len(order) > 1 {
			next = order[1+(v/16)%(len(order)-1)]
		}
	}
	if curOK && next != s.cur {
		s.Pre++
	}
	return next
}

// Run drives the tasks to completion. Returns a verdict with Kind=="" on normal completion.
func (s *Sched) Run() Verdict {
	s.running = true
	defer func() { s.running = false; s.cur = nil }()
	for {
		if s.panicV != nil {
			s.abort()
			return *s.panicV
		}
		if s.OnStep != nil {
			keep := s.cur
			s.cur = nil
			s.OnStep(s)
			s.cur = keep
		}
		var runnable []*Task
		live := 0
		for _, t := range s.tasks {
			if t.state == tsDone {
				continue
			}
			live++
			if t.state == tsReady || (t.state == tsBlocked && t.blockedSince < s.lastProg) {
				runnable = append(runnable, t)
			}
		}
		if live == 0 {
			return Verdict{}
		}
		if len(runnable) == 0 {
			var w []string
			for _, t := range s.tasks {
				if t.state != tsDone {
					w = append(w, fmt.Sprintf("%s@%s", t.name, t.point))
				}
			}
			s.abort()
			return Verdict{Kind: "deadlock", Msg: "all unfinished tasks blocked: " + strings.Join(w, ", ")}
		}
		if s.Steps >= s.Budget {
			var w []string
			for _, t := range s.tasks {
				if t.state != tsDone {
					w = append(w, fmt.Sprintf("%s@%s", t.name, t.point))
				}
			}
			s.abort()
			return Verdict{Kind: "livelock", Msg: fmt.Sprintf("step budget %d exceeded: %s", s.Budget, strings.Join(w, ", "))}
		}
		next := s.pick(runnable)
		s.mix(next.name)
		s.mix(":")
		s.mix(next.point)
		s.mix(";")
		if s.keep && len(s.trace) < 5000 {
			s.trace = append(s.trace, fmt.Sprintf("%d %s %s", s.Steps, next.name, next.point))
		}
		s.Steps++
		atomic.AddInt64(&progressCounter, 1)
		wasBlocked := next.state == tsBlocked
		next.state = tsReady
		s.cur = next
		if !next.started {
			s.start(next)
		}
		next.wake <- struct{}{}
		<-s.ctl
		if !(wasBlocked && next.state == tsBlocked) {
			s.lastProg = s.Steps
		}
	}
}

// abort releases every parked task with a panic(abortRun) so its goroutine ends.
func (s *Sched) abort() {
	s.aborted = true
	for _, t := range s.tasks {
		if t.state != tsDone && t.started {
			s.cur = t
			t.wake <- struct{}{}
			<-s.ctl
		}
		t.state = tsDone
	}
	s.cur = nil
}

// progressCounter is bumped at every scheduling step and run start; the worker watchdog uses it.
var progressCounter int64
