package main

import (
	"runtime"
	"runtime/debug"
	"strings"
	"time"

	"github.com/fullstorydev/emulators/bigtable/bttest"
	"github.com/fullstorydev/emulators/storage/gcsemu"
	"github.com/fullstorydev/emulators/storage/gcsutil"
)

// The hooks in /repo are package-level, so a process runs one simulation at a time.
// They are installed once; what they do depends on the current scheduler / clock.

var simS *Sched
var simClk *Clock
var simRng *Stream // draws for code-under-test randomness (row-key sampling)
var simChoose *Stream

func installSched(s *Sched) { simS = s }

type leakedLock string

func hookYield(p string) {
	if simS != nil {
		// A yield reached from a deferred call while the task is panicking (a deferred Unlock)
		// must not hand the baton on: the real process would already be going down, and the
		// verdict has to be the panic that was raised first, not a secondary one provoked in
		// another task that runs on the half-unwound state.
		if strings.Contains(p, "nlock") && panicking() {
			return
		}
		simS.Yield(p)
	}
}

// panicking reports whether the calling goroutine is running deferred calls of a panic.
func panicking() bool {
	var pcs [48]uintptr
	n := runtime.Callers(2, pcs[:])
	frames := runtime.CallersFrames(pcs[:n])
	for {
		f, more := frames.Next()
		if f.Function == "runtime.gopanic" {
			return true
		}
		if !more {
			return false
		}
	}
}

func hookBlock(p string) {
	if simS == nil || !simS.Running() || simS.cur == nil {
		panic(leakedLock(p))
	}
	simS.Block(p)
}

// Clock is the simulator-owned time source (server clock in microseconds, wall clock in ns).
type Clock struct {
	ServerUs   int64
	ServerTick int64 // added to ServerUs after every read of the server clock
	WallNs     int64
	// Wall clock behaviour: every read first advances by WallTick() (>= 0).
	WallTick func() int64
	reads    int
	wall0    int64
	srv0     int64
}

func NewClock(serverUs, wallNs int64) *Clock {
	return &Clock{ServerUs: serverUs, WallNs: wallNs, wall0: wallNs, srv0: serverUs}
}

func (c *Clock) wallNow() time.Time {
	c.reads++
	if c.WallTick != nil {
		c.WallNs += c.WallTick()
	} else {
		c.WallNs += 1000
	}
	return time.Unix(0, c.WallNs)
}

func hookWallNow() time.Time {
	if simClk == nil {
		// never real time inside the simulator: a fixed epoch that still advances
		defaultWall += 1000
		return time.Unix(0, defaultWall)
	}
	return simClk.wallNow()
}

var defaultWall int64 = 1_600_000_000_000_000_000

func hookRandInt31n(n int32) int32 {
	if simRng == nil {
		return 1 % n // "not sampled"
	}
	return int32(simRng.Intn(int(n)))
}

func hookRandFloat() float64 {
	if simRng == nil {
		return 0.25
	}
	return float64(simRng.Intn(1000)) / 1000.0
}

func hookChoose(point string, n int) int {
	if simChoose == nil {
		return 0
	}
	return simChoose.Intn(n)
}

func installHooks() {
	bttest.VerifSim.Enabled = true
	bttest.VerifSim.Yield = hookYield
	bttest.VerifSim.Block = hookBlock
	bttest.VerifSim.Choose = hookChoose
	bttest.VerifSim.WallNow = hookWallNow
	bttest.VerifSim.RandInt31n = hookRandInt31n
	bttest.VerifSim.RandFloat = hookRandFloat
	bttest.VerifSim.DisableGCLoop = true
	gcsutil.VerifSim.Yield = hookYield
	gcsutil.VerifSim.Block = hookBlock
	gcsemu.VerifSim.Yield = hookYield
	gcsemu.VerifSim.TimeNow = hookWallNow
}

func stackNow() []byte { return debug.Stack() }

// underTest reports whether a recovered panic originated in repository code (or a library it
// called) rather than in the harness: walking outwards from the panic site, the first frame that
// belongs to either the harness ("main.") or the repository decides.
func underTest(stack []byte) bool {
	lines := strings.Split(string(stack), "\n")
	seenPanic := false
	for _, l := range lines {
		if strings.HasPrefix(l, "\t") {
			continue
		}
		if strings.HasPrefix(l, "panic(") || strings.HasPrefix(l, "runtime.gopanic") || strings.HasPrefix(l, "runtime.sigpanic") || strings.HasPrefix(l, "runtime.panic") || strings.HasPrefix(l, "runtime.goPanic") {
			seenPanic = true
			continue
		}
		if !seenPanic {
			continue
		}
		if strings.HasPrefix(l, "github.com/fullstorydev/emulators/") {
			return true
		}
		if strings.HasPrefix(l, "main.") {
			return false
		}
	}
	return false
}
