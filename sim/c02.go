package main

import "strings"

// C02: what is uploaded is what is served, until overwritten or deleted.

func init() {
	register(&PropDef{
		ID: "C02", Level: "exploration", Quick: 12000, Thorough: 400000, QuickCap: 100,
		Rule:   "each run = one store (memory / file), a strictly increasing simulated wall clock, 1-25 requests: uploads by simple media, multipart/related and resumable protocol (chunkings, status queries bytes */N and */*, re-sent earlier ranges, re-sent ranges that overlap the received bytes and continue past them, duplicated requests, lost responses, finishing by bytes */N, gzip-encoded bodies, file store: server restart between chunks), declared MD5 good/bad/none, names with slashes, dots, spaces, unicode and percent characters, payloads empty / 1 byte / binary / 256 KiB+1; after every successful upload the object is downloaded through the JSON, /download and public URL forms and its metadata read; overwrites, deletes and neighbour checks via full-state comparison (listing + metadata + media of every object of every bucket); distinct = hash of (store, request shapes); non-trivial = at least 2 requests",
		Real:   []string{"gcsemu handlers (uploads, resumable state machine, media/metadata GET, delete, listing), multipart and range parsing, gzip/drain wrappers, mem store and file store on a real file system, net/http request parser and mux"},
		Stub:   []string{"HTTP connections (requests built from raw bytes, served through the real mux into a recorder)", "wall clock (simulator-owned, strictly increasing here)"},
		Assume: []string{"names the mux itself rewrites (empty, '.'/'..' segments, '//') are not sent; file-store worlds also exclude names that are a directory prefix of another name", "contentType is compared only when one was sent", "uploads go to existing buckets only"},
		Run:    runC02,
	})
	expectedProbes["C02"] = []string{"c02.three_forms", "c02.bad_md5_rejected", "c02.overwrite", "c02.delete", "c02.resumable_multi_chunk", "c02.finished_by_status_query", "c02.resend_overlapping_range", "c02.folder_name_request", "c02.refinalise_after_rejection", "c02.gzip_body", "c02.big_payload", "gcs.restart"}
}

func runC02(r *Run) {
	cfg := r.T.S("cfg")
	store := pickStore(r, cfg)
	nOps := 1 + cfg.Intn(25)
	clk := NewClock(0, 1_700_000_000_000_000_000)
	wallIncreasing(r, clk)
	g := &gGen{store: store, big: cfg.Intn(4) == 3}
	spec := gSeqSpec{
		Store: store, NOps: nOps, FullEvery: []int{1, 3, 6}[cfg.Intn(3)], Restarts: true,
		Gen: func(d *draws, m *gModel, i int) gOp {
			b := gBuckets[d.w(4, 1)]
			switch d.w(12, 6, 2, 4, 1) {
			case 4:
				// the bucket is created again: it keeps everything it holds
				r.Probe("c02.bucket_created_again")
				return gOp{Kind: "CreateBucket", Bucket: b}
			case 0:
				name := existingName(d, m, b, g.names())
				if m.obj(b, name) != nil {
					r.Probe("c02.overwrite")
				}
				return g.upload(d, b, name, gConds{})
			case 1:
				n, f := c02ReadName(r, d, m, b, g.names(), store)
				return gOp{Kind: "Media", Bucket: b, Name: n, Form: d.n(3), Folder: f}
			case 2:
				n, f := c02ReadName(r, d, m, b, g.names(), store)
				return gOp{Kind: "Get", Bucket: b, Name: n, Folder: f}
			default:
				name, f := c02ReadName(r, d, m, b, g.names(), store)
				if m.obj(b, name) != nil {
					r.Probe("c02.delete")
				}
				return gOp{Kind: "Delete", Bucket: b, Name: name, Folder: f}
			}
		},
		After: func(op gOp, resp gResp, m *gModel, w *GCSWorld) bool {
			if op.Folder || op.Kind == "CreateBucket" {
				// whatever the answer, the objects below the folder name are untouched
				if k, msg := fullCompareG(w, m); k != "" {
					r.Fail(k, "", "after %s -> HTTP %d: %s", op, resp.Status, msg)
					return false
				}
			}
			if op.Kind == "Delete" && ok2xx(resp.Status) {
				// absent from metadata, download and (full comparison) listing
				for _, f := range []gOp{{Kind: "Get", Bucket: op.Bucket, Name: op.Name}, {Kind: "Media", Bucket: op.Bucket, Name: op.Name, Form: 0}, {Kind: "Media", Bucket: op.Bucket, Name: op.Name, Form: 2}} {
					if k, msg := m.step(f, execG(w, f)); k != "" {
						r.Fail(k, "", "after %s: %s", op, msg)
						return false
					}
				}
			}
			if op.Kind != "Upload" {
				return true
			}
			if op.BadMd5 {
				r.Probe("c02.bad_md5_rejected")
			}
			if op.Up.Gzip {
				r.Probe("c02.gzip_body")
			}
			if len(op.Up.Content) > 200000 {
				r.Probe("c02.big_payload")
			}
			if op.Proto == "resumable" && len(resp.Trace) > 3 {
				r.Probe("c02.resumable_multi_chunk")
			}
			if !ok2xx(resp.Status) {
				return true
			}
			r.Probe("c02.three_forms")
			for f := 0; f < 3; f++ {
				mo := gOp{Kind: "Media", Bucket: op.Up.Bucket, Name: op.Up.Name, Form: f}
				if k, msg := m.step(mo, execG(w, mo)); k != "" {
					r.Fail(k, witnessC02(mo, k), "after %s: %s", op, msg)
					return false
				}
			}
			gm := gOp{Kind: "Get", Bucket: op.Up.Bucket, Name: op.Up.Name}
			if k, msg := m.step(gm, execG(w, gm)); k != "" {
				r.Fail(k, "", "after %s: %s", op, msg)
				return false
			}
			return true
		},
	}
	res := runGSeq(r, spec, clk)
	r.Sample = map[string]interface{}{"store": store, "requests": len(res.Shapes), "first_ops": firstN(res.Shapes, 10)}
}

func witnessC02(op gOp, kind string) string { return "" }

// c02ReadName: the name of a read or delete. Besides existing and absent object names it is
// sometimes a "folder" of existing objects (a name that was never uploaded and is a /-prefix of
// stored names): such a request must find nothing and must not touch the objects below it.
var c02Folders = []string{"dir", "dir/", "dir/sub", "dir/sub/"}

func c02ReadName(r *Run, d *draws, m *gModel, b string, names []string, store string) (string, bool) {
	n := existingName(d, m, b, names)
	if d.n(8) == 0 {
		f := c02Folders[d.n(len(c02Folders))]
		isFolder := false
		for _, x := range m.names(b) {
			if strings.HasPrefix(x, strings.TrimSuffix(f, "/")+"/") {
				r.Probe("c02.folder_name_request")
				isFolder = true
				break
			}
		}
		return f, isFolder && store == "file"
	}
	return n, false
}
