package main

import (
	"sort"
)

// Choice tapes: every decision of a simulated run is Intn(n) on a named stream.
// Generation mode: a SplitMix64 generator derived from (run seed, stream name); outputs recorded.
// Replay mode: recorded integers are read back (mod n); past the end the answer is 0.
// 0 is always the simplest alternative (no fault, no preemption, shortest program).

func splitmix(x uint64) uint64 {
	x += 0x9e3779b97f4a7c15
	z := x
	z = (z ^ (z >> 30)) * 0xbf58476d1ce4e5b9
	z = (z ^ (z >> 27)) * 0x94d049bb133111eb
	return z ^ (z >> 31)
}

func hashString(s string) uint64 {
	h := uint64(1469598103934665603)
	for i := 0; i < len(s); i++ {
		h ^= uint64(s[i])
		h *= 1099511628211
	}
	return h
}

type Stream struct {
	name   string
	replay bool
	in     []int // replay input
	out    []int // what was actually consumed (normalised)
	pos    int
	state  uint64
}

func (s *Stream) next() uint64 {
	s.state += 0x9e3779b97f4a7c15
	z := s.state
	z = (z ^ (z >> 30)) * 0xbf58476d1ce4e5b9
	z = (z ^ (z >> 27)) * 0x94d049bb133111eb
	return z ^ (z >> 31)
}

// Intn returns a value in [0,n). n<=1 returns 0 but still consumes one slot so that
// records stay aligned.
func (s *Stream) Intn(n int) int {
	var v int
	if s.replay {
		if s.pos < len(s.in) {
			v = s.in[s.pos]
		}
		s.pos++
		if n <= 1 {
			v = 0
		} else {
			if v < 0 {
				v = -v
			}
			v %= n
		}
	} else {
		r := s.next()
		if n <= 1 {
			v = 0
		} else {
			v = int(r % uint64(n))
		}
	}
	s.out = append(s.out, v)
	return v
}

// Chance returns true with probability num/den (value 0..num-1 of den means true is NOT
// the zero alternative: true is drawn only when the value is >= den-num, so 0 = false).
func (s *Stream) Chance(num, den int) bool {
	return s.Intn(den) >= den-num
}

// Pick returns an index into a weighted list; index 0 should be the simplest.
func (s *Stream) Weighted(w []int) int {
	tot := 0
	for _, x := range w {
		tot += x
	}
	v := s.Intn(tot)
	for i, x := range w {
		if v < x {
			return i
		}
		v -= x
	}
	return len(w) - 1
}

type Tape struct {
	Seed    uint64
	Replay  bool
	streams map[string]*Stream
	in      map[string][]int
}

func NewGenTape(seed uint64) *Tape {
	return &Tape{Seed: seed, streams: map[string]*Stream{}}
}

func NewReplayTape(seed uint64, rec map[string][]int) *Tape {
	return &Tape{Seed: seed, Replay: true, streams: map[string]*Stream{}, in: rec}
}

func (t *Tape) S(name string) *Stream {
	if s, ok := t.streams[name]; ok {
		return s
	}
	s := &Stream{name: name, replay: t.Replay}
	if t.Replay {
		s.in = t.in[name]
	} else {
		s.state = splitmix(t.Seed ^ hashString(name))
	}
	t.streams[name] = s
	return s
}

// Record returns what every stream actually consumed in this run.
func (t *Tape) Record() map[string][]int {
	out := map[string][]int{}
	for n, s := range t.streams {
		c := make([]int, len(s.out))
		copy(c, s.out)
		// trailing zeros carry no information (past-the-end reads are 0)
		for len(c) > 0 && c[len(c)-1] == 0 {
			c = c[:len(c)-1]
		}
		out[n] = c
	}
	return out
}

func streamNames(rec map[string][]int) []string {
	var ns []string
	for n := range rec {
		ns = append(ns, n)
	}
	sort.Strings(ns)
	return ns
}

// perm is a seeded permutation of [0,n): used to visit finite universes without replacement.
type perm struct {
	n    int
	a, b uint64
}

func gcd(a, b uint64) uint64 {
	for b != 0 {
		a, b = b, a%b
	}
	return a
}

func newPerm(n int, seed uint64) perm {
	if n <= 1 {
		return perm{n: n, a: 1}
	}
	a := splitmix(seed)%uint64(n) | 1
	for gcd(a, uint64(n)) != 1 {
		a += 2
		if a >= uint64(n) {
			a = 1
		}
	}
	return perm{n: n, a: a, b: splitmix(seed+1) % uint64(n)}
}

func (p perm) at(i int) int {
	if p.n <= 1 {
		return 0
	}
	return int((p.a*uint64(i%p.n) + p.b) % uint64(p.n))
}

// SeedStream makes a stream's generator independent of the run seed (used to share one program
// among the runs that enumerate its crash points). No effect in replay mode.
func (t *Tape) SeedStream(name string, seed uint64) {
	if t.Replay {
		return
	}
	s := t.S(name)
	if len(s.out) == 0 {
		s.state = splitmix(seed ^ hashString(name))
	}
}
