package main

import (
	"fmt"
	"os"
	"path/filepath"
	"time"
)

// C04: preconditions gate mutations exactly; a failed one changes nothing.

const (
	c04Ops    = 7 // media multipart resumable patch delete composeDst composeSrc
	c04States = 3 // absent, (g,1), (g,m>1)
	c04Conds  = 5 * 5 * 5 * 5
)

func init() {
	register(&PropDef{
		ID: "C04", Level: "exploration", Quick: 6000, Thorough: 20000, QuickCap: 100,
		Rule:   "the finite truth table {ifGenerationMatch: unset/0/current/other/junk} x {ifGenerationNotMatch, ifMetagenerationMatch, ifMetagenerationNotMatch: unset/current/other/junk/0} x object state {absent, (g,1), (g,m>1)} x operation {media, multipart, resumable upload, patch, delete, compose destination, compose per-source generation} x store = 26250 items is visited by a seeded permutation, 9 items per run on fresh object names of one world (the thorough tier consumes it completely), followed by the same draws inside random histories including a resumable upload whose object is changed by another request between initiation and completion; after every request the response is compared with the truth table and, on every non-2xx, all objects are read back and must be unchanged; distinct = hash of (store, items, shapes); non-trivial = at least one failing precondition in the run",
		Real:   []string{"gcsemu parseConds, validateConds, finishUpload, handleGcsDelete, handleGcsUpdateMetadataRequest, handleGcsCompose/finishCompose, both stores"},
		Stub:   []string{"HTTP connections (recorder)", "wall clock (simulator-owned, strictly increasing)"},
		Assume: []string{"ifGenerationNotMatch / ifMetagenerationMatch / ifMetagenerationNotMatch are never sent with the value 0 (unspecified)", "for an absent object a failing request may answer 412, or 304 when a not-match condition was supplied; delete/patch of an absent object may also answer 404"},
		Run:    runC04,
		Subspaces: func() map[string]int {
			return map[string]int{"c04.table": c04Conds * c04States * c04Ops * 2}
		},
	})
	expectedProbes["C04"] = []string{"c04.pass", "c04.fail_412", "c04.fail_304", "c04.junk_400", "c04.absent", "c04.resumable_changed_meanwhile", "c04.compose_source_generation", "c04.compose_repeated_source_condition", "c04.conditional_request_in_batch", "c04.complete_resources_compared", "c04.object_of_generation_zero"}
}

// condsFromIndex decodes a truth-table index into parameters relative to the current object.
func condsFromIndex(ci int, cur *gObj) gConds {
	var c gConds
	g, mg := int64(777), int64(1)
	if cur != nil {
		g, mg = cur.Gen, cur.Metagen
	}
	switch ci % 5 {
	case 1:
		c.GenMatch = ip(0)
	case 2:
		c.GenMatch = ip(g)
	case 3:
		c.GenMatch = ip(g + 1)
	case 4:
		c.GenMatch = sp("x1")
	}
	ci /= 5
	pick := func(v int, cur int64, junk string) *string {
		switch v {
		case 1:
			return ip(cur)
		case 2:
			return ip(cur + 5)
		case 3:
			return sp(junk)
		case 4:
			return ip(0) // supplied, with the value 0: a condition like any other
		}
		return nil
	}
	c.GenNotMatch = pick(ci%5, g, "1e3")
	ci /= 5
	c.MetaMatch = pick(ci%5, mg, "one")
	ci /= 5
	c.MetaNotMatch = pick(ci%5, mg, "0x1")
	return c
}

func runC04(r *Run) {
	cfg := r.T.S("cfg")
	clk := NewClock(0, 1_700_000_000_000_000_000)
	wallIncreasing(r, clk)
	total := c04Conds * c04States * c04Ops
	perm := newPerm(total, r.Master+4)
	const perRun = 9
	store := []string{"mem", "file"}[r.Index%2]
	_ = cfg
	w := NewGCSWorld(r, store, "", clk)
	defer w.Destroy()
	m := newGModel()
	g := &gGen{store: store}
	var shapes []string
	step := func(op gOp) (gResp, bool) {
		var before map[string]string
		if op.Between == nil && op.Kind != "CreateBucket" {
			before = rawStateG(w, m)
		}
		resp := execG(w, op)
		r.Hist(map[string]interface{}{"op": op.String(), "status": resp.Status, "meta": resp.Meta.String()})
		if r.Failed() {
			return resp, false
		}
		if k, msg := m.step(op, resp); k != "" {
			r.Fail(k, "", "%s", msg)
			return resp, false
		}
		switch {
		case resp.Status == 412:
			r.Probe("c04.fail_412")
			r.nontrivial = true
		case resp.Status == 304:
			r.Probe("c04.fail_304")
			r.nontrivial = true
		case resp.Status == 400:
			r.Probe("c04.junk_400")
		case ok2xx(resp.Status):
			r.Probe("c04.pass")
		}
		if !ok2xx(resp.Status) {
			if before != nil {
				if d := diffRawG(before, rawStateG(w, m)); d != "" {
					r.Fail("failed-request-changed-state", "", "after the failing request %s (HTTP %d): %s", op, resp.Status, d)
					return resp, false
				}
				r.Probe("c04.complete_resources_compared")
			}
			if k, msg := fullCompareG(w, m); k != "" {
				r.Fail("failed-request-changed-state", "", "after the failing request %s (HTTP %d): %s", op, resp.Status, msg)
				return resp, false
			}
		}
		return resp, true
	}
	for _, b := range gBuckets {
		if _, ok := step(gOp{Kind: "CreateBucket", Bucket: b}); !ok {
			return
		}
	}
	r.Mix(store)
	// a stable source object for compose
	srcUp := gOp{Kind: "Upload", Proto: "media", Up: upSpec{Bucket: "bkt", Name: "src.bin", Content: []byte("SRC"), ContentType: "text/plain"}}
	if _, ok := step(srcUp); !ok {
		return
	}
	for k := 0; k < perRun && !r.Failed(); k++ {
		it := perm.at((r.Index/2)*perRun + k)
		r.Visit("c04.table", it*2+r.Index%2)
		ci, st, opk := it%c04Conds, (it/c04Conds)%c04States, it/(c04Conds*c04States)
		name := fmt.Sprintf("obj%d.dat", k)
		// reach the object state
		if st >= 1 {
			if _, ok := step(gOp{Kind: "Upload", Proto: "media", Up: upSpec{Bucket: "bkt", Name: name, Content: []byte(fmt.Sprintf("old-%d", k)), ContentType: "text/plain"}}); !ok {
				return
			}
		}
		if st == 2 {
			for p := 0; p < 1+k%2; p++ {
				if _, ok := step(gOp{Kind: "Patch", Bucket: "bkt", Name: name, Body: map[string]interface{}{"metadata": map[string]string{"p": fmt.Sprint(p)}}}); !ok {
					return
				}
			}
		} else if st == 0 {
			r.Probe("c04.absent")
		}
		cur := m.obj("bkt", name)
		conds := condsFromIndex(ci, cur)
		var op gOp
		switch opk {
		case 0, 1, 2:
			op = gOp{Kind: "Upload", Proto: []string{"media", "multipart", "resumable"}[opk], Up: upSpec{Bucket: "bkt", Name: name, Content: []byte(fmt.Sprintf("new-%d", k)), ContentType: "text/plain", Conds: conds}}
			if opk == 2 {
				op.Resum = &resumPlan{KnownTotal: true, Chunks: []int{2}}
			}
		case 3:
			body := map[string]interface{}{"contentType": "text/x-patched", "metadata": map[string]string{"q": "1"}}
			if splitmix(uint64(it))&1 == 1 {
				// the body may name read-only fields; conditions are about the stored object
				body["metageneration"] = "4"
				body["generation"] = "4"
			}
			op = gOp{Kind: "Patch", Bucket: "bkt", Name: name, Conds: conds, Body: body}
		case 4:
			op = gOp{Kind: "Delete", Bucket: "bkt", Name: name, Conds: conds}
		case 5:
			op = gOp{Kind: "Compose", Bucket: "bkt", Name: name, Conds: conds, Srcs: []string{"src.bin", "src.bin"}, DstMeta: map[string]interface{}{"contentType": "text/plain"}}
		default:
			// per-source generation: the four values of ifGenerationMatch on the source; the
			// destination carries the remaining three parameters
			r.Probe("c04.compose_source_generation")
			src := m.obj("bkt", "src.bin")
			var sg *string
			switch ci % 5 {
			case 1, 2:
				sg = ip(src.Gen)
			case 3:
				sg = ip(src.Gen + 1)
			case 4:
				sg = sp("zz")
			}
			dc := conds
			dc.GenMatch = nil
			// the source may be named several times; the condition under test sits on one
			// mention (first, middle or last), the other mentions carry none or a matching one
			srcs := []string{"src.bin"}
			gens := []*string{sg}
			switch int(splitmix(uint64(it))>>7) % 4 { // layout: a fixed function of the item
			case 1:
				srcs, gens = []string{"src.bin", "src.bin"}, []*string{nil, sg}
			case 2:
				srcs, gens = []string{"src.bin", "src.bin"}, []*string{sg, ip(src.Gen)}
			case 3:
				srcs, gens = []string{"src.bin", "src.bin", "src.bin"}, []*string{ip(src.Gen), nil, sg}
			}
			if len(srcs) > 1 {
				r.Probe("c04.compose_repeated_source_condition")
			}
			op = gOp{Kind: "Compose", Bucket: "bkt", Name: name, Conds: dc, Srcs: srcs, SrcGens: gens, DstMeta: map[string]interface{}{"contentType": "text/plain"}}
		}
		shapes = append(shapes, fmt.Sprintf("%d/%d/%d", opk, st, ci))
		if (opk == 3 || opk == 4) && splitmix(uint64(it)+77)&3 == 3 {
			// the same request as the only part of a batch: the conditions travel in the
			// sub-request's query string and must be honoured just the same
			w.ViaBatch = true
			r.Probe("c04.conditional_request_in_batch")
		}
		if _, ok := step(op); !ok {
			return
		}
	}
	// file store: an object whose generation is 0 (a content file without a sidecar whose
	// modification time is the epoch - a hand-placed or legacy file). It exists, so "must not
	// exist" (ifGenerationMatch=0) must refuse every mutation of it.
	if store == "file" && r.Index%8 == 1 && !r.Failed() {
		p := filepath.Join(w.Dir, "bkt", "epoch.dat")
		if err := os.WriteFile(p, []byte("since the epoch"), 0666); err != nil {
			harnessErr("plant: %v", err)
		}
		os.Chtimes(p, time.Unix(0, 0), time.Unix(0, 0))
		if pm := parseMeta(w.GetMeta("bkt", "epoch.dat").JSON()); pm != nil && pm.Gen == 0 {
			r.Probe("c04.object_of_generation_zero")
			m.Buckets["bkt"]["epoch.dat"] = &gObj{Content: []byte("since the epoch"), ContentType: pm.ContentType, Metadata: map[string]string{}, Md5: pm.Md5, Gen: 0, Metagen: pm.Metagen}
			zero := gConds{GenMatch: sp("0")}
			for _, op := range []gOp{
				{Kind: "Patch", Bucket: "bkt", Name: "epoch.dat", Conds: zero, Body: map[string]interface{}{"metadata": map[string]string{"z": "1"}}},
				{Kind: "Compose", Bucket: "bkt", Name: "epoch.dat", Conds: zero, Srcs: []string{"src.bin"}, DstMeta: map[string]interface{}{}},
				{Kind: "Upload", Proto: []string{"media", "multipart", "resumable"}[(r.Index/8)%3], Up: upSpec{Bucket: "bkt", Name: "epoch.dat", Content: []byte("replaced"), ContentType: "text/plain", Conds: zero}, Resum: &resumPlan{KnownTotal: true, Chunks: []int{3}}},
				{Kind: "Delete", Bucket: "bkt", Name: "epoch.dat", Conds: zero},
				{Kind: "Delete", Bucket: "bkt", Name: "epoch.dat"},
			} {
				if op.Kind == "Upload" && op.Proto != "resumable" {
					op.Resum = nil
				}
				if _, ok := step(op); !ok {
					return
				}
			}
		}
	}
	// the same draws inside a random history on one contended name
	ps := r.T.S("prog.0")
	nRand := 6
	for i := 0; i < nRand && !r.Failed(); i++ {
		d := record(ps, 96)
		name := []string{"hist.txt", "dir/hist2.txt"}[d.w(3, 1)]
		cur := m.obj("bkt", name)
		conds := g.conds(d, cur, true)
		var op gOp
		switch d.w(5, 2, 2, 2, 2) {
		case 0:
			op = g.upload(d, "bkt", name, conds)
			op.BadMd5 = false
			if op.Up.Md5 != "" {
				op.Up.Md5 = md5b64(op.Up.Content)
			}
		case 1:
			op = gOp{Kind: "Patch", Bucket: "bkt", Name: name, Conds: conds, Body: map[string]interface{}{"metadata": map[string]string{"h": fmt.Sprint(i)}}}
		case 2:
			op = gOp{Kind: "Delete", Bucket: "bkt", Name: name, Conds: conds}
		case 3:
			op = gOp{Kind: "Compose", Bucket: "bkt", Name: name, Conds: conds, Srcs: []string{"src.bin"}, DstMeta: map[string]interface{}{}}
		default:
			// resumable upload whose object is changed by another request before completion
			r.Probe("c04.resumable_changed_meanwhile")
			op = gOp{Kind: "Upload", Proto: "resumable", Up: upSpec{Bucket: "bkt", Name: name, Content: []byte(fmt.Sprintf("resum-%d", i)), ContentType: "text/plain", Conds: conds}, Resum: &resumPlan{KnownTotal: d.n(2) == 0, Chunks: []int{3}}}
			var bt gOp
			switch d.n(3) {
			case 0:
				bt = gOp{Kind: "Upload", Proto: "media", Up: upSpec{Bucket: "bkt", Name: name, Content: []byte(fmt.Sprintf("between-%d", i)), ContentType: "text/plain"}}
			case 1:
				bt = gOp{Kind: "Patch", Bucket: "bkt", Name: name, Body: map[string]interface{}{"metadata": map[string]string{"b": "1"}}}
			default:
				bt = gOp{Kind: "Delete", Bucket: "bkt", Name: name}
			}
			op.Between = &bt
		}
		shapes = append(shapes, gOpShape(op))
		if _, ok := step(op); !ok {
			return
		}
	}
	if !r.Failed() {
		if k, msg := fullCompareG(w, m); k != "" {
			r.Fail(k, "", "final state: %s", msg)
		}
	}
	for _, s := range shapes {
		r.Mix(s)
	}
	r.Sample = map[string]interface{}{"store": store, "items": firstN(shapes, 9), "history": shapes[min(len(shapes), perRun):]}
}

func min(a, b int) int {
	if a < b {
		return a
	}
	return b
}
