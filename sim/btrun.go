package main

import (
	"sort"
)

// Generic sequential Bigtable program runner: draws operations from a generator, executes them
// against one world, checks each response against the reference model and reads the touched
// rows (and at a drawn frequency everything) back.

type seqSpec struct {
	Engine    string
	Tables    []btOp // CreateTable ops issued first
	NOps      int
	Gen       func(d *draws, m *btModel, i int) btOp
	FullEvery int
	Restarts  bool
	AllowBack bool
	Witness   func(op btOp, kind string) string
	AfterOp   func(op btOp, resp btResp, before, after *btModel)
	RecWidth  int
}

type seqResult struct {
	Shapes []string
	World  *BTWorld
}

func touchedRows(op btOp) map[string]bool {
	t := map[string]bool{}
	switch op.Kind {
	case "MutateRow", "CAM", "RMW":
		t[op.Key] = true
	case "MutateRows":
		for _, e := range op.Entries {
			t[e.Key] = true
		}
	}
	return t
}

// fullCompare reads every table (schema and rows) and compares with the model.
func fullCompare(r *Run, w *BTWorld, model *btModel, clk *Clock, check func(btOp) bool) bool {
	parents := map[string]bool{}
	for _, n := range model.tableNames() {
		p := n[:len(n)-len("/tables/")-len(tableID(n))]
		parents[p] = true
	}
	var ps []string
	for p := range parents {
		ps = append(ps, p)
	}
	sort.Strings(ps)
	for _, p := range ps {
		if !check(btOp{Kind: "ListTables", Parent: p}) {
			return false
		}
	}
	for _, n := range model.tableNames() {
		if !check(btOp{Kind: "GetTable", Table: n}) || !check(btOp{Kind: "ReadAll", Table: n}) {
			return false
		}
	}
	return true
}

func tableID(name string) string {
	for i := len(name) - 1; i >= 0; i-- {
		if name[i] == '/' {
			return name[i+1:]
		}
	}
	return name
}

func runBTSeq(r *Run, spec seqSpec, clk *Clock) *seqResult {
	w := NewBTWorld(r, spec.Engine, clk, "")
	res := &seqResult{World: w}
	r.Defer(func() { res.World.Destroy() })
	model := newBTModel()
	ps := r.T.S("prog.0")
	width := spec.RecWidth
	if width == 0 {
		width = 96
	}
	check := func(op btOp) bool {
		now := clk.ServerUs // the value the request's first look at the server clock returns
		resp := execOp(res.World, op)
		r.Hist(map[string]interface{}{"op": op.String(), "clock": now, "resp": resp})
		before := model
		if spec.AfterOp != nil {
			before = model.clone()
		}
		if k, msg := model.step(op, resp, now); k != "" {
			wit := ""
			if spec.Witness != nil {
				wit = spec.Witness(op, k)
			}
			r.Fail(k, wit, "%s", msg)
			return false
		}
		if spec.AfterOp != nil {
			spec.AfterOp(op, resp, before, model)
		}
		return true
	}
	for _, c := range spec.Tables {
		if !check(c) {
			return res
		}
	}
	r.Mix(spec.Engine)
	for i := 0; i < spec.NOps && !r.Failed(); i++ {
		clockStep(r, clk, spec.AllowBack)
		d := record(ps, width)
		op := spec.Gen(d, model, i)
		res.Shapes = append(res.Shapes, opShape(op))
		if !check(op) {
			break
		}
		if t := model.Tables[op.Table]; t != nil {
			tr := touchedRows(op)
			var ks []string
			for k := range tr {
				ks = append(ks, k)
			}
			sort.Strings(ks)
			for _, k := range ks {
				if !check(btOp{Kind: "ReadRow", Table: op.Table, Key: k}) {
					return res
				}
			}
		}
		if spec.FullEvery > 0 && i%spec.FullEvery == 0 {
			if !fullCompare(r, res.World, model, clk, check) {
				return res
			}
		}
		if spec.Restarts && spec.Engine == engLdbDisk && r.T.S("fault").Intn(6) == 5 {
			kill := r.T.S("fault").Intn(2) == 1
			res.World = restartWorld(r, res.World, kill)
			r.Probe("restart")
			if r.Failed() || !fullCompare(r, res.World, model, clk, check) {
				return res
			}
		}
	}
	if !r.Failed() {
		fullCompare(r, res.World, model, clk, check)
	}
	for _, s := range res.Shapes {
		r.Mix(s)
	}
	r.nontrivial = len(res.Shapes) >= 2
	return res
}
