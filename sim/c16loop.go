package main

import (
	"fmt"
	"os"
	"time"

	btapb "cloud.google.com/go/bigtable/admin/apiv2/adminpb"
	"github.com/fullstorydev/emulators/bigtable/bttest"
)

// C16 sub-workload "round": the server's REAL garbage-collection loop (gcloop: wait, assemble the
// round, pass over each table in turn) runs as a simulator task; only its timer is the
// simulator's. Two tables have been idle for hours when the round starts: a large one (its pass
// hands the table lock over every 100 rows, so the round is busy with it for many scheduling
// points) and a small one (its pass is one critical section). A client watches the large table;
// as soon as it sees that table's first row collected - the round is under way - it writes two
// versions of a cell to the small table. If that write is acknowledged before the loop next
// reads the wall clock, every later decision "the small table is idle" is wrong: the table is in
// active use, and the two versions must both be there after the round. (The guard on the clock
// read keeps the check sound for an idleness test that was taken just before the write arrived
// and a pass that began just after it - a window the statement does not rule out.)

type c16LoopStop struct{}

func c16Loop(r *Run, cfg *Stream) {
	engine := pickEngine(r, cfg)
	d := record(r.T.S("prog.0"), 16)
	rule := &btapb.GcRule{Rule: &btapb.GcRule_MaxNumVersions{MaxNumVersions: 1}}
	now := int64(1_700_000_000_000_000)
	clk := NewClock(now, 1_700_000_000_000_000_000)
	w := NewBTWorld(r, engine, clk, "")
	defer w.Destroy()
	const parent = "projects/p/instances/i"
	const big, small = parent + "/tables/big", parent + "/tables/small"
	for _, id := range []string{"big", "small"} {
		if _, err := w.CreateTable(parent, id, map[string]*btapb.GcRule{"f1": rule}); err != nil {
			r.Fail("setup", "", "CreateTable: %v", err)
			return
		}
	}
	nBig := 101 + d.n(300)
	var entries []entryIn
	for i := 0; i < nBig; i++ {
		entries = append(entries, entryIn{Key: fmt.Sprintf("a%04d", i), Muts: mutList{setCell("f1", "q", 1000, "old"), setCell("f1", "q", 2000, "new")}})
	}
	if !c16Write(r, w, big, entries) {
		return
	}
	clk.WallNs += int64(1+d.n(60)) * 1e9
	if !c16Write(r, w, small, []entryIn{{Key: "s", Muts: mutList{setCell("f1", "q", 1000, "only")}}}) {
		return
	}
	idle := int64(1+d.n(48)) * 3600 * 1e9
	clk.WallNs += idle
	r.SimWallNs += idle

	s := r.NewSched()
	s.Budget = 2000000
	evt := 0
	var loopClockReads []int // event numbers at which the loop task read the wall clock
	clk.WallTick = func() int64 {
		if s.Running() && s.CurTask() == "gcloop" {
			evt++
			loopClockReads = append(loopClockReads, evt)
		}
		return 1000
	}
	fired := 0
	bttest.VerifSim.GCLoopTimer = func(time.Duration) <-chan time.Time {
		fired++
		if fired > 1 {
			panic(c16LoopStop{}) // one round per run: unwind the loop (it holds nothing here)
		}
		ch := make(chan time.Time, 1)
		ch <- time.Unix(0, clk.WallNs)
		return ch
	}
	defer func() { bttest.VerifSim.GCLoopTimer = nil }()
	roundOver := false
	s.Go("gcloop", func() {
		defer func() {
			roundOver = true
			if x := recover(); x != nil {
				if _, ok := x.(c16LoopStop); !ok {
					panic(x)
				}
			}
		}()
		w.svc.GCLoop()
	})
	ackAt, obsAt := 0, 0
	lastKey := fmt.Sprintf("a%04d", nBig-1)
	versions := func(key string) int {
		rr := w.ReadRow(big, key)
		if rr.Err != nil || len(rr.Rows) != 1 {
			r.Fail("read-failed", "", "%v rows=%d", rr.Err, len(rr.Rows))
			return -1
		}
		return len(rr.Rows[0].Cells)
	}
	s.Go("client", func() {
		for polls := 0; polls < 400 && !roundOver && obsAt == 0; polls++ {
			if len(loopClockReads) == 0 {
				s.Yield("client.wait")
				continue
			}
			// the pass over big is under way: its first row is collected, its last row is not yet
			first := versions("a0000")
			if first < 0 {
				return
			}
			if first == 1 {
				// stamped before the read: by the time the answer is back the pass may be over,
				// but it was under way at some instant after this stamp
				evt++
				stamp := evt
				last := versions(lastKey)
				if last < 0 {
					return
				}
				if last == 1 {
					return // the pass over big is over already
				}
				obsAt = stamp
				break
			}
			s.Yield("client.poll")
		}
		if obsAt == 0 || roundOver {
			return
		}
		if err := w.MutateRow(small, "s", mutList{setCell("f1", "q", 3000, "v3"), setCell("f1", "q", 4000, "v4")}); err != nil {
			r.Fail("setup", "", "MutateRow: %v", err)
			return
		}
		evt++
		ackAt = evt
	})
	// in half of the runs an administrator changes the schema of both tables while the round is
	// under way (new families, which hold no cells): admin requests take a table's lock and the
	// server's, the loop takes the server's and then each table's - nobody may wait for ever
	if d.n(2) == 1 {
		r.Probe("c16.round_with_concurrent_schema_changes")
		s.Go("admin", func() {
			for k := 0; k < 6 && !roundOver && !r.Failed(); k++ {
				tblName := []string{big, small}[k%2]
				mod := []*btapb.ModifyColumnFamiliesRequest_Modification{{Id: fmt.Sprintf("g%d", k), Mod: &btapb.ModifyColumnFamiliesRequest_Modification_Create{Create: &btapb.ColumnFamily{}}}}
				if _, err := w.ModifyFamilies(tblName, mod); err != nil {
					r.Fail("admin-failed", "", "ModifyColumnFamilies(create g%d) on %s during a GC round: %v", k, tblName, err)
					return
				}
				s.Yield("admin.pause")
			}
		})
	}
	v := s.Run()
	r.FinishSched(s, v)
	clk.WallTick = nil
	if r.Failed() {
		return
	}
	r.Mix(fmt.Sprintf("round;%d;%d", obsAt, len(loopClockReads)))
	r.Sample = map[string]interface{}{"mode": "round", "engine": engine, "big_rows": nBig, "loop_clock_reads": len(loopClockReads), "client_wrote_during_round": ackAt > 0, "steps": s.Steps, "preemptions": s.Pre}
	if ackAt == 0 {
		r.Probe("c16.round_without_client_write")
		return
	}
	// Did the loop look at the clock after the client had seen the pass over big under way? If
	// not, whatever made it decide "small is idle" predates the client's request altogether.
	lookedSince := false
	for _, e := range loopClockReads {
		if e > obsAt {
			lookedSince = true
		}
	}
	rr := w.ReadRow(small, "s")
	if rr.Err != nil || len(rr.Rows) != 1 {
		r.Fail("read-failed", "", "%v rows=%d", rr.Err, len(rr.Rows))
		return
	}
	n := len(rr.Rows[0].Cells)
	switch {
	case n == 3:
		r.Probe("c16.round_skipped_table_used_during_round")
	case n == 1 && !lookedSince:
		if os.Getenv("VERIF_C16_DEBUG") != "" {
			fmt.Fprintln(os.Stderr, "DEBUG reads", loopClockReads, "obs", obsAt, "ack", ackAt, "trace", s.Trace())
		}
		r.Fail("gc-on-active-table", "", "the real GC loop: tables big (%d rows) and small had been idle for %d h when the round began; while the pass over big was under way (first row collected, last row not yet) a client wrote two more versions to small and was acknowledged; the loop did not look at the clock once after that point, and still ran a pass on small afterwards (it holds %s)", nBig, idle/3600e9, rr.Rows[0])
	case n == 1:
		// an idleness test taken between the client's observation and the end of its request,
		// with the pass starting just after the request: tolerated (see the comment at the top)
		r.Probe("c16.round_idleness_test_raced_the_write")
	default:
		r.Fail("gc-policy", "", "max-versions 1 on table small left %s", rr.Rows[0])
	}
}
