package main

import (
	"fmt"

	btpb "cloud.google.com/go/bigtable/apiv2/bigtablepb"
)

// C01: Bigtable data-model equivalence. Sequential programs of MutateRow/MutateRows over an
// adversarial universe, every engine, a drawn (unaligned, stepping) server clock, clean restarts
// and kill-images between requests for the disk engine; every response and the visible state
// are compared with the reference model.

func init() {
	register(&PropDef{
		ID: "C01", Level: "exploration", Quick: 12000, Thorough: 400000, QuickCap: 100,
		Rule:   "each run = one storage engine, a drawn server-clock trajectory, 1-40 MutateRow/MutateRows requests over 8 adversarial row keys x 2 families (+unknown) x 5 qualifiers x boundary/invalid timestamps and every delete kind/range shape; after each request the touched rows are read back, the whole table at a drawn frequency and at the end; distinct = hash of (engine, sequence of mutation shapes); non-trivial = at least 2 requests",
		Real:   []string{"bttest server handlers (MutateRow, MutateRows, ReadRows, applyMutations, scrubRow, chunkBuilder)", "btree / goleveldb-mem / goleveldb-disk engines", "start-up recovery (NewServerWithOptions) for disk restarts", "protobuf wire round trip of every request and response"},
		Stub:   []string{"gRPC transport (direct handler calls with a recording stream)", "server clock (simulator-owned)", "process kill = byte copy of the storage directory between requests"},
		Assume: []string{"error codes/messages are not compared (OK vs not OK only)", "an empty mutation list may fail or be a no-op", "family order inside a row is unspecified and canonicalised"},
		Run:    runC01,
	})
	expectedProbes["C01"] = []string{"c01.invalid_rejected", "c01.server_ts", "c01.restart", "c01.entry_failed", "c01.full_compare", "c01.very_long_mutation_list"}
}

func pickEngine(r *Run, cfg *Stream) string {
	// directed: the first indices cycle through the engines so that every quick run covers all
	if r.Index < 3 {
		cfg.Intn(1)
		return engines[r.Index]
	}
	return engines[cfg.Weighted([]int{5, 4, 2})]
}

func runC01(r *Run) {
	cfg := r.T.S("cfg")
	engine := pickEngine(r, cfg)
	nReq := 1 + cfg.Intn(40)
	fullEvery := []int{1, 3, 8}[cfg.Intn(3)]
	restarts := engine == engLdbDisk && cfg.Intn(2) == 1
	clk := NewClock(1_700_000_000_000_123+int64(cfg.Intn(2000)), 1_700_000_000_000_000_000)
	w := NewBTWorld(r, engine, clk, "")
	defer func() { w.Destroy() }()
	const tbl = "projects/p/instances/i/tables/t"
	model := newBTModel()
	gen := &btGen{fams: []string{"f1", "f12"}, unknown: "nofam", bigVals: true}
	ps := r.T.S("prog.0")
	bigLists := cfg.Intn(5) == 4 // one run in five carries very long mutation lists

	create := btOp{Kind: "CreateTable", Parent: "projects/p/instances/i", TableID: "t", Fams: map[string]*btapbGc{"f1": nil, "f12": nil}}
	if k, msg := model.step(create, execOp(w, create), clk.ServerUs); k != "" {
		r.Fail(k, "", "%s", msg)
		return
	}
	r.Mix(engine)
	var shapes []string
	check := func(op btOp) bool {
		resp := execOp(w, op)
		r.Hist(map[string]interface{}{"op": op.String(), "clock": clk.ServerUs, "resp": resp})
		if k, msg := model.step(op, resp, clk.ServerUs); k != "" {
			r.Fail(k, witnessC01(op, k), "%s", msg)
			return false
		}
		return true
	}
	for i := 0; i < nReq && !r.Failed(); i++ {
		clockStep(r, clk, true)
		d := record(ps, 80)
		var op btOp
		if bigLists && d.n(12) == 11 {
			// a very long mutation list (a bulk load in one request), valid or failing near
			// its end: the size at which an implementation might start to work in slices is
			// not assumed, lengths are drawn around several powers of two and of ten
			n := []int{500, 1000, 1024, 2048, 4096}[d.n(5)] + d.n(3)
			var muts mutList
			for k := 0; k < n; k++ {
				muts = append(muts, setCell("f1", fmt.Sprintf("b%04d", k%700), int64(1+k/700)*1000, fmt.Sprintf("x%d.%d", i, k)))
			}
			if d.n(2) == 1 {
				muts = append(muts, setCell("nofam", "q", 1000, "bad"))
			}
			r.Probe("c01.very_long_mutation_list")
			op = btOp{Kind: "MutateRow", Table: tbl, Key: btRowKeys[d.n(len(btRowKeys))], Muts: muts}
		} else if d.w(3, 2) == 0 {
			op = btOp{Kind: "MutateRow", Table: tbl, Key: btRowKeys[d.n(len(btRowKeys))], Muts: gen.mutations(d, 4, true)}
		} else {
			op = btOp{Kind: "MutateRows", Table: tbl}
			ne := 1 + d.w(4, 3, 2, 1)
			for e := 0; e < 4; e++ {
				en := entryIn{Key: btRowKeys[d.n(len(btRowKeys))], Muts: gen.mutations(d, 2, true)}
				if e < ne {
					op.Entries = append(op.Entries, en)
				}
			}
		}
		shapes = append(shapes, opShape(op))
		before := model.clone()
		if !check(op) {
			break
		}
		noteC01Probes(r, op, before, model)
		// read back every touched row
		touched := map[string]bool{}
		if op.Kind == "MutateRow" {
			touched[op.Key] = true
		}
		for _, e := range op.Entries {
			touched[e.Key] = true
		}
		for _, k := range btRowKeys {
			if touched[k] && !check(btOp{Kind: "ReadRow", Table: tbl, Key: k}) {
				return
			}
		}
		if i%fullEvery == 0 {
			r.Probe("c01.full_compare")
			if !check(btOp{Kind: "ReadAll", Table: tbl}) {
				return
			}
		}
		if restarts && r.T.S("fault").Intn(6) == 5 {
			// the state must survive a clean stop or a kill between requests unchanged
			kill := r.T.S("fault").Intn(2) == 1
			w = restartWorld(r, w, kill)
			r.Probe("c01.restart")
			if !check(btOp{Kind: "ReadAll", Table: tbl}) {
				return
			}
		}
	}
	if !r.Failed() {
		check(btOp{Kind: "ReadAll", Table: tbl})
		for _, k := range btRowKeys {
			if !check(btOp{Kind: "ReadRow", Table: tbl, Key: k}) {
				break
			}
		}
	}
	for _, s := range shapes {
		r.Mix(s)
	}
	r.nontrivial = len(shapes) >= 2
	r.Sample = map[string]interface{}{"engine": engine, "requests": len(shapes), "first_ops": firstN(shapes, 6), "clock_end": clk.ServerUs}
}

func firstN(s []string, n int) []string {
	if len(s) > n {
		return s[:n]
	}
	return s
}

// restartWorld stops the disk world (cleanly, or by imaging the directory = process kill between
// requests) and starts a new server on the directory / the image.
func restartWorld(r *Run, w *BTWorld, kill bool) *BTWorld {
	// The new instance always runs on a copy of the directory: a real restart is a new process,
	// so file locks of handles the dead instance never closed (deleted tables) are gone.
	img := scratchDir("bt-img-")
	if kill {
		r.Fault("crash_boundary")
	} else {
		r.Fault("clean_stop")
		w.Close()
	}
	if err := imageDir(w.Dir, img); err != nil {
		harnessErr("image: %v", err)
	}
	w.Destroy()
	nw := NewBTWorld(r, engLdbDisk, w.Clk, img)
	if len(nw.ErrLog) > 0 {
		r.Fail("restart-errlog", "", "start-up logged errors: %v", nw.ErrLog)
	}
	return nw
}

func opShape(op btOp) string {
	s := op.Kind + ":"
	for _, ru := range op.Rules {
		switch ru.Rule.(type) {
		case *btpb.ReadModifyWriteRule_AppendValue:
			s += "a"
		case *btpb.ReadModifyWriteRule_IncrementAmount:
			s += "i"
		default:
			s += "0"
		}
	}
	for _, m := range op.Mods {
		switch {
		case m.GetCreate() != nil:
			s += "c"
		case m.GetUpdate() != nil:
			s += "u"
		case m.GetDrop():
			s += "d"
		}
	}
	if op.Kind == "CreateTable" || op.Kind == "DropPrefix" {
		s += op.TableID + op.Prefix
	}
	add := func(ms mutList) {
		for _, m := range ms {
			s += mutKind(m)
		}
		s += "|"
	}
	add(op.Muts)
	for _, e := range op.Entries {
		add(e.Muts)
	}
	return s
}

func noteC01Probes(r *Run, op btOp, before, after *btModel) {
	t := before.Tables[op.Table]
	if t == nil {
		return
	}
	chk := func(key string, ms mutList) {
		out := t.applyMutations(t.row(key), ms, 0)
		if out.err != nil {
			r.Probe("c01.invalid_rejected")
			if op.Kind == "MutateRows" {
				r.Probe("c01.entry_failed")
			}
		}
		for _, m := range ms {
			if sc := m.GetSetCell(); sc != nil && sc.TimestampMicros == -1 {
				r.Probe("c01.server_ts")
			}
		}
	}
	if op.Kind == "MutateRow" {
		chk(op.Key, op.Muts)
	}
	for _, e := range op.Entries {
		chk(e.Key, e.Muts)
	}
}

// witnessC01 names narrow, input-defined situations (used only by known-findings matching).
func witnessC01(op btOp, kind string) string {
	return ""
}

var _ = fmt.Sprintf
