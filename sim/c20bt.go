package main

import (
	"context"
	"fmt"
	"math"
	"strings"

	btapb "cloud.google.com/go/bigtable/admin/apiv2/adminpb"
	btpb "cloud.google.com/go/bigtable/apiv2/bigtablepb"
	"google.golang.org/grpc/codes"
	"google.golang.org/grpc/status"
	"google.golang.org/protobuf/proto"
	"google.golang.org/protobuf/types/known/durationpb"
)

// C20 (Bigtable half): perturbed single requests, concurrent admin/data mixes, transport faults.

const (
	c20Keep = "projects/p/instances/i/tables/keep"
	c20Scr  = "projects/p/instances/i/tables/scr"
)

// rawCall sends an arbitrary (wire-representable) request to the matching RPC; any panic
// propagates to the caller. Returns the gRPC error (nil = OK).
func (w *BTWorld) rawCall(m proto.Message) error {
	ctx := context.Background()
	d, a := w.svc.Data(), w.svc.Admin()
	var err error
	switch req := m.(type) {
	case *btpb.MutateRowRequest:
		_, err = d.MutateRow(ctx, req)
	case *btpb.MutateRowsRequest:
		err = d.MutateRows(req, &mutateStream{w: w})
	case *btpb.CheckAndMutateRowRequest:
		_, err = d.CheckAndMutateRow(ctx, req)
	case *btpb.ReadModifyWriteRowRequest:
		_, err = d.ReadModifyWriteRow(ctx, req)
	case *btpb.ReadRowsRequest:
		st := &readStream{w: w}
		err = d.ReadRows(req, st)
		if err == nil {
			if _, bad := decodeChunks(st.msgs); bad != nil {
				return fmt.Errorf("MALFORMED: %v", bad)
			}
		}
	case *btpb.SampleRowKeysRequest:
		err = d.SampleRowKeys(req, &sampleStream{w: w})
	case *btapb.CreateTableRequest:
		_, err = a.CreateTable(ctx, req)
	case *btapb.DeleteTableRequest:
		_, err = a.DeleteTable(ctx, req)
	case *btapb.GetTableRequest:
		_, err = a.GetTable(ctx, req)
	case *btapb.ListTablesRequest:
		_, err = a.ListTables(ctx, req)
	case *btapb.ModifyColumnFamiliesRequest:
		_, err = a.ModifyColumnFamilies(ctx, req)
	case *btapb.DropRowRangeRequest:
		_, err = a.DropRowRange(ctx, req)
	case *btapb.GenerateConsistencyTokenRequest:
		_, err = a.GenerateConsistencyToken(ctx, req)
	case *btapb.CheckConsistencyRequest:
		_, err = a.CheckConsistency(ctx, req)
	default:
		harnessErr("rawCall: %T", m)
	}
	w.yieldMarshal()
	return err
}

func c20Table(d *draws) string {
	return []string{c20Scr, c20Scr, "projects/p/instances/i/tables/nope", "", "scr", "projects//tables/"}[d.w(8, 4, 3, 1, 1, 1)]
}

var c20Ints = []int64{0, 1, -1, 2, math.MaxInt32, math.MinInt32, math.MaxInt64, math.MinInt64, 1000, -1000, 1500}

func c20Filter(d *draws, depth int) *btpb.RowFilter {
	switch d.w(6, 2, 2, 2, 1, 1, 1, 2) {
	case 0:
		fg := &filterGen{rows: []ORow{{Key: "a", Cells: []OCell{{Fam: "f1", Qual: "q", Ts: 1000, Val: "v"}}}}, fams: []string{"f1", "f2", "zz"}, maxDepth: 3, invalid: true, sample: true}
		return fg.tree(d, 0, true)
	case 1:
		return &btpb.RowFilter{} // no filter set
	case 2:
		return &btpb.RowFilter{Filter: &btpb.RowFilter_Condition_{Condition: &btpb.RowFilter_Condition{}}} // absent predicate
	case 3:
		n := int32(c20Ints[d.n(len(c20Ints))])
		switch d.n(3) {
		case 0:
			return &btpb.RowFilter{Filter: &btpb.RowFilter_CellsPerRowLimitFilter{CellsPerRowLimitFilter: n}}
		case 1:
			return &btpb.RowFilter{Filter: &btpb.RowFilter_CellsPerRowOffsetFilter{CellsPerRowOffsetFilter: n}}
		}
		return &btpb.RowFilter{Filter: &btpb.RowFilter_CellsPerColumnLimitFilter{CellsPerColumnLimitFilter: n}}
	case 4:
		return &btpb.RowFilter{Filter: &btpb.RowFilter_Chain_{Chain: &btpb.RowFilter_Chain{}}}
	case 5:
		return &btpb.RowFilter{Filter: &btpb.RowFilter_Interleave_{Interleave: &btpb.RowFilter_Interleave{Filters: []*btpb.RowFilter{{}, {}}}}}
	case 6:
		return &btpb.RowFilter{Filter: &btpb.RowFilter_ColumnRangeFilter{ColumnRangeFilter: &btpb.ColumnRange{}}}
	default:
		return &btpb.RowFilter{Filter: &btpb.RowFilter_TimestampRangeFilter{TimestampRangeFilter: &btpb.TimestampRange{StartTimestampMicros: c20Ints[d.n(len(c20Ints))], EndTimestampMicros: c20Ints[d.n(len(c20Ints))]}}}
	}
}

func c20Mutations(d *draws) mutList {
	n := d.w(2, 4, 2, 1)
	var ms mutList
	for i := 0; i < 3; i++ {
		var m *btpb.Mutation
		switch d.w(4, 2, 1, 1, 2, 1) {
		case 0:
			m = &btpb.Mutation{Mutation: &btpb.Mutation_SetCell_{SetCell: &btpb.Mutation_SetCell{FamilyName: []string{"f1", "", "nofam"}[d.n(3)], ColumnQualifier: []byte(btQuals[d.n(len(btQuals))]), TimestampMicros: c20Ints[d.n(len(c20Ints))], Value: []byte("x")}}}
		case 1:
			m = &btpb.Mutation{Mutation: &btpb.Mutation_DeleteFromColumn_{DeleteFromColumn: &btpb.Mutation_DeleteFromColumn{FamilyName: []string{"f1", "", "nofam"}[d.n(3)], ColumnQualifier: []byte("q"), TimeRange: &btpb.TimestampRange{StartTimestampMicros: c20Ints[d.n(len(c20Ints))], EndTimestampMicros: c20Ints[d.n(len(c20Ints))]}}}}
		case 2:
			m = &btpb.Mutation{Mutation: &btpb.Mutation_DeleteFromFamily_{DeleteFromFamily: &btpb.Mutation_DeleteFromFamily{}}}
		case 3:
			m = &btpb.Mutation{Mutation: &btpb.Mutation_DeleteFromRow_{DeleteFromRow: &btpb.Mutation_DeleteFromRow{}}}
		case 4:
			m = &btpb.Mutation{} // nothing set
		default:
			m = &btpb.Mutation{Mutation: &btpb.Mutation_SetCell_{SetCell: &btpb.Mutation_SetCell{}}}
		}
		if i < n {
			ms = append(ms, m)
		}
	}
	return ms
}

// c20BTRequest builds one perturbed request. Mutating requests only ever name the scratch table
// (or tables that do not exist).
func c20BTRequest(d *draws) proto.Message {
	key := []byte([]string{"a", "", "a\x00", "\xff"}[d.n(4)])
	switch d.n(14) {
	case 0:
		return &btpb.MutateRowRequest{TableName: c20Table(d), RowKey: key, Mutations: c20Mutations(d)}
	case 1:
		req := &btpb.MutateRowsRequest{TableName: c20Table(d)}
		for i := 0; i < d.n(3); i++ {
			req.Entries = append(req.Entries, &btpb.MutateRowsRequest_Entry{RowKey: key, Mutations: c20Mutations(d)})
		}
		if d.n(4) == 0 {
			req.Entries = append(req.Entries, &btpb.MutateRowsRequest_Entry{})
		}
		return req
	case 2:
		req := &btpb.CheckAndMutateRowRequest{TableName: c20Table(d), RowKey: key, TrueMutations: c20Mutations(d), FalseMutations: c20Mutations(d)}
		if d.n(3) != 0 {
			req.PredicateFilter = c20Filter(d, 0)
		}
		return req
	case 3:
		req := &btpb.ReadModifyWriteRowRequest{TableName: c20Table(d), RowKey: key}
		for i := 0; i < d.n(3); i++ {
			ru := &btpb.ReadModifyWriteRule{FamilyName: []string{"f1", "", "nofam"}[d.n(3)], ColumnQualifier: []byte("q")}
			switch d.n(3) {
			case 0:
				ru.Rule = &btpb.ReadModifyWriteRule_IncrementAmount{IncrementAmount: c20Ints[d.n(len(c20Ints))]}
			case 1:
				ru.Rule = &btpb.ReadModifyWriteRule_AppendValue{AppendValue: []byte("z")}
			}
			req.Rules = append(req.Rules, ru)
		}
		return req
	case 4, 5:
		tbl := []string{c20Keep, c20Scr, "projects/p/instances/i/tables/nope", ""}[d.w(5, 3, 2, 1)]
		req := &btpb.ReadRowsRequest{TableName: tbl, RowsLimit: c20Ints[d.n(len(c20Ints))]}
		if d.n(2) == 0 {
			req.RowsLimit = 0
		}
		if d.n(3) != 0 {
			req.Filter = c20Filter(d, 0)
		}
		switch d.n(5) {
		case 1:
			req.Rows = &btpb.RowSet{}
		case 2:
			req.Rows = &btpb.RowSet{RowKeys: [][]byte{{}, []byte("a")}, RowRanges: []*btpb.RowRange{{}}}
		case 3:
			req.Rows = &btpb.RowSet{RowRanges: []*btpb.RowRange{{StartKey: &btpb.RowRange_StartKeyOpen{StartKeyOpen: []byte("b")}, EndKey: &btpb.RowRange_EndKeyClosed{EndKeyClosed: []byte("a")}}, {StartKey: &btpb.RowRange_StartKeyClosed{}, EndKey: &btpb.RowRange_EndKeyOpen{}}}}
		case 4:
			req.Rows = &btpb.RowSet{RowRanges: []*btpb.RowRange{{StartKey: &btpb.RowRange_StartKeyOpen{StartKeyOpen: []byte("a")}, EndKey: &btpb.RowRange_EndKeyOpen{EndKeyOpen: []byte("a")}}}}
		}
		return req
	case 6:
		return &btpb.SampleRowKeysRequest{TableName: []string{c20Keep, c20Scr, "nope", ""}[d.n(4)]}
	case 7:
		req := &btapb.CreateTableRequest{Parent: []string{"projects/p/instances/i", "", "x"}[d.w(4, 1, 1)], TableId: []string{"scr2", "", "scr", "a/b", "tmp", strings.Repeat("n", 300), "a\x00b", "tmp.deleted", "tmp.table.proto"}[d.n(9)]}
		switch d.n(4) {
		case 1:
			req.Table = &btapb.Table{}
		case 2:
			req.Table = &btapb.Table{ColumnFamilies: map[string]*btapb.ColumnFamily{"f": nil, "": {}, "g": {GcRule: &btapb.GcRule{}}}}
		case 3:
			req.Table = &btapb.Table{Name: "ignored", ColumnFamilies: map[string]*btapb.ColumnFamily{"f": {GcRule: &btapb.GcRule{Rule: &btapb.GcRule_MaxAge{MaxAge: &durationpb.Duration{Seconds: -5, Nanos: -1}}}}, "h": {GcRule: &btapb.GcRule{Rule: &btapb.GcRule_Union_{Union: &btapb.GcRule_Union{}}}}, "k": {GcRule: &btapb.GcRule{Rule: &btapb.GcRule_MaxNumVersions{MaxNumVersions: -3}}}}}
		}
		return req
	case 8:
		return &btapb.DeleteTableRequest{Name: []string{"projects/p/instances/i/tables/scr2", "projects/p/instances/i/tables/tmp", "", "nope"}[d.n(4)]}
	case 9:
		return &btapb.GetTableRequest{Name: []string{c20Keep, c20Scr, "", "nope"}[d.n(4)]}
	case 10:
		return &btapb.ListTablesRequest{Parent: []string{"projects/p/instances/i", "", "projects", "projects/p/instances/i/tables"}[d.n(4)]}
	case 11:
		req := &btapb.ModifyColumnFamiliesRequest{Name: c20Table(d)}
		for i := 0; i < d.n(4); i++ {
			mod := &btapb.ModifyColumnFamiliesRequest_Modification{Id: []string{"f1", "f9", "", "f2"}[d.n(4)]}
			switch d.n(5) {
			case 0:
				mod.Mod = &btapb.ModifyColumnFamiliesRequest_Modification_Create{Create: &btapb.ColumnFamily{}}
			case 1:
				mod.Mod = &btapb.ModifyColumnFamiliesRequest_Modification_Update{Update: &btapb.ColumnFamily{GcRule: &btapb.GcRule{}}}
			case 2:
				mod.Mod = &btapb.ModifyColumnFamiliesRequest_Modification_Drop{Drop: true}
			case 3:
				mod.Mod = &btapb.ModifyColumnFamiliesRequest_Modification_Drop{Drop: false}
			}
			req.Modifications = append(req.Modifications, mod)
		}
		return req
	case 12:
		req := &btapb.DropRowRangeRequest{Name: c20Table(d)}
		switch d.n(4) {
		case 0:
			req.Target = &btapb.DropRowRangeRequest_RowKeyPrefix{RowKeyPrefix: []byte{}}
		case 1:
			req.Target = &btapb.DropRowRangeRequest_RowKeyPrefix{RowKeyPrefix: []byte("\xff\xff")}
		case 2:
			req.Target = &btapb.DropRowRangeRequest_DeleteAllDataFromTable{DeleteAllDataFromTable: false}
		}
		return req
	default:
		if d.n(2) == 0 {
			return &btapb.GenerateConsistencyTokenRequest{Name: []string{c20Keep, "nope", ""}[d.n(3)]}
		}
		return &btapb.CheckConsistencyRequest{Name: []string{c20Keep, "nope", ""}[d.n(3)], ConsistencyToken: []string{"TokenFor-" + c20Keep, "", "junk"}[d.n(3)]}
	}
}

// bytePerturb flips bits / truncates the serialized request; returns nil if the result is not
// something the transport would have delivered (does not parse).
func bytePerturb(d *draws, m proto.Message) proto.Message {
	b, err := proto.Marshal(m)
	if err != nil || len(b) == 0 {
		return nil
	}
	b = append([]byte(nil), b...)
	switch d.n(3) {
	case 0:
		b = b[:d.n(len(b))]
	default:
		for k := 0; k < 1+d.n(3); k++ {
			i := d.n(len(b))
			b[i] ^= 1 << uint(d.n(8))
		}
	}
	out := m.ProtoReflect().New().Interface()
	if err := proto.Unmarshal(b, out); err != nil {
		return nil
	}
	return out
}

func c20BTSetup(r *Run, w *BTWorld, model *btModel) bool {
	for _, id := range []string{"keep", "scr"} {
		op := btOp{Kind: "CreateTable", Parent: "projects/p/instances/i", TableID: id, Fams: map[string]*btapb.GcRule{"f1": nil, "f2": {Rule: &btapb.GcRule_MaxNumVersions{MaxNumVersions: 2}}}}
		if k, msg := model.step(op, execOp(w, op), w.Clk.ServerUs); k != "" {
			r.Fail(k, "", "%s", msg)
			return false
		}
	}
	for i, k := range []string{"a", "a\x00", "b", "\xff"} {
		op := btOp{Kind: "MutateRow", Table: c20Keep, Key: k, Muts: mutList{setCell("f1", "q", 1000, fmt.Sprintf("keep%d", i)), setCell("f2", "", 2000, "x")}}
		if kk, msg := model.step(op, execOp(w, op), w.Clk.ServerUs); kk != "" {
			r.Fail(kk, "", "%s", msg)
			return false
		}
	}
	return true
}

// c20BTProbe: the service still works and the kept data is intact.
func c20BTProbe(r *Run, w *BTWorld, model *btModel, when string) bool {
	keep := &btModel{Tables: map[string]*mTable{c20Keep: model.Tables[c20Keep]}}
	for _, op := range []btOp{{Kind: "ReadAll", Table: c20Keep}, {Kind: "GetTable", Table: c20Keep}, {Kind: "Sample", Table: c20Keep},
		{Kind: "MutateRow", Table: c20Keep, Key: "probe", Muts: mutList{setCell("f1", "p", 3000, "probe")}}, {Kind: "ReadRow", Table: c20Keep, Key: "probe"},
		{Kind: "MutateRow", Table: c20Keep, Key: "probe", Muts: mutList{{Mutation: &btpb.Mutation_DeleteFromRow_{DeleteFromRow: &btpb.Mutation_DeleteFromRow{}}}}}} {
		if k, msg := keep.step(op, execOp(w, op), w.Clk.ServerUs); k != "" {
			r.Fail("service-degraded", "", "%s: a valid request no longer behaves (%s): %s", when, k, msg)
			return false
		}
	}
	return true
}

func c20BTSingle(r *Run, cfg *Stream) {
	engine := pickEngine(r, cfg)
	clk := NewClock(1_700_000_000_000_000, 1_700_000_000_000_000_000)
	simRng = r.T.S("rng")
	defer func() { simRng = nil }()
	w := NewBTWorld(r, engine, clk, "")
	defer w.Destroy()
	model := newBTModel()
	if !c20BTSetup(r, w, model) {
		return
	}
	n := 10 + cfg.Intn(50)
	ps := r.T.S("prog.0")
	failSend := cfg.Intn(3) == 2
	r.Mix("bt-single" + engine)
	for i := 0; i < n && !r.Failed(); i++ {
		d := record(ps, 760)
		req := c20BTRequest(d)
		how := "structure"
		if d.n(4) == 0 {
			if p := bytePerturb(d, req); p != nil {
				// byte-level perturbation: read-only requests and the scratch table only
				switch p.(type) {
				case *btpb.ReadRowsRequest, *btpb.SampleRowKeysRequest, *btapb.GetTableRequest, *btapb.ListTablesRequest, *btapb.GenerateConsistencyTokenRequest, *btapb.CheckConsistencyRequest:
					req, how = p, "bytes"
				default:
					if tn, ok := p.(interface{ GetTableName() string }); ok && tn.GetTableName() != c20Keep {
						req, how = p, "bytes"
					}
				}
				r.Probe("c20.byte_level")
			}
		}
		wired := req.ProtoReflect().New().Interface()
		wire(req, wired)
		if failSend {
			k := d.n(3)
			w.SendFail = func(kind string, nth int) bool { return nth == k }
		}
		desc := fmt.Sprintf("%T %s (%s perturbation)", wired, shortStr(compactProto(wired), 600), how)
		r.Hist(map[string]interface{}{"request": desc})
		err := w.rawCall(wired)
		w.SendFail = nil
		r.Mix(fmt.Sprintf("%T%v", wired, err == nil))
		if err != nil {
			r.Probe("c20.bt_error_status")
			if _, ok := status.FromError(err); !ok && len(err.Error()) >= 9 && err.Error()[:9] == "MALFORMED" {
				r.Fail("malformed-response", "", "%s: %v", desc, err)
				return
			}
			if err.Error() == "" {
				r.Fail("empty-error", "", "%s: error without a message", desc)
				return
			}
		}
		if i%8 == 7 {
			if !c20BTProbe(r, w, model, "after "+desc) {
				return
			}
		}
	}
	if !r.Failed() {
		// whatever schemas the (perturbed) admin requests left behind - GC rules with negative
		// or absurd numbers included - a garbage-collection pass over populated tables must not
		// take the server down (the real pass runs on a background goroutine: a panic there
		// kills the process)
		if names, err := w.ListTables("projects/p/instances/i"); err == nil {
			for _, name := range names {
				if name == c20Keep {
					continue
				}
				if t, err := w.GetTable(name); err == nil {
					for f := range t.ColumnFamilies {
						w.MutateRow(name, "gcrow", mutList{setCell(f, "q", 1000, "a"), setCell(f, "q", 2000, "b")})
					}
				}
				w.GC(name, true)
				r.Probe("c20.gc_after_perturbed_schema")
			}
		}
		c20BTProbe(r, w, model, "at the end")
	}
	r.nontrivial = true
	r.Sample = map[string]interface{}{"mode": "bt-single", "engine": engine, "requests": n}
}

// c20BTMix: concurrent admin / data mixes under the scheduler.
func c20BTMix(r *Run, cfg *Stream) {
	engine := []string{engLdbMem, engLdbMem, engLdbDisk}[cfg.Intn(3)]
	clk := NewClock(1_700_000_000_000_000, 1_700_000_000_000_000_000)
	w := NewBTWorld(r, engine, clk, "")
	defer w.Destroy()
	model := newBTModel()
	if !c20BTSetup(r, w, model) {
		return
	}
	const tmp = "projects/p/instances/i/tables/tmp"
	big := cfg.Intn(2) == 1
	// eight runs per batch: so many bytes that the engine has moved rows from its write buffer
	// (4 MiB) into table files - iterators over those behave differently when the table is
	// cleared under them
	huge := (r.Index >= 16 && r.Index < 24) || (r.Tier == "thorough" && r.Index%1000 < 2)
	mkTmp := func() {
		w.CreateTable("projects/p/instances/i", "tmp", map[string]*btapb.GcRule{"f1": nil, "f2": nil})
		n, val := 6, "v"
		if big {
			n = 60
		}
		if huge {
			n, val = 100, strings.Repeat("x", 3<<10)
			r.Probe("c20.table_larger_than_write_buffer")
		}
		for from := 0; from < n; from += 20 {
			var es []entryIn
			for i := from; i < from+20 && i < n; i++ {
				var muts mutList
				for c := 0; c < 25; c++ {
					muts = append(muts, setCell("f1", fmt.Sprintf("q%02d", c), 1000, val))
				}
				es = append(es, entryIn{Key: fmt.Sprintf("t%03d", i), Muts: muts})
			}
			w.MutateRows(tmp, es)
		}
		if huge {
			// one row so large that it has an engine table file to itself
			var muts mutList
			for c := 0; c < 25; c++ {
				muts = append(muts, setCell("f1", fmt.Sprintf("q%02d", c), 1000, strings.Repeat("y", 100<<10)))
			}
			for _, k := range []string{"t050x", "t050y", "t050z"} {
				w.MutateRows(tmp, []entryIn{{Key: k, Muts: muts}})
			}
			w.Settle() // everything in table files, whatever goleveldb's background goroutines were up to
		}
	}
	mkTmp()
	if huge {
		// empty and one-row ranges around the row that fills a table file of its own
		for _, ks := range []string{"t050x", "t050y", "t050z"} {
			k := []byte(ks)
			for _, rr := range []*btpb.RowRange{
				{StartKey: &btpb.RowRange_StartKeyOpen{StartKeyOpen: k}, EndKey: &btpb.RowRange_EndKeyOpen{EndKeyOpen: k}},
				{StartKey: &btpb.RowRange_StartKeyClosed{StartKeyClosed: k}, EndKey: &btpb.RowRange_EndKeyOpen{EndKeyOpen: k}},
				{StartKey: &btpb.RowRange_StartKeyOpen{StartKeyOpen: k}, EndKey: &btpb.RowRange_EndKeyClosed{EndKeyClosed: k}},
				{StartKey: &btpb.RowRange_StartKeyClosed{StartKeyClosed: k}, EndKey: &btpb.RowRange_EndKeyClosed{EndKeyClosed: k}},
			} {
				res := w.ReadRows(&btpb.ReadRowsRequest{TableName: tmp, Rows: &btpb.RowSet{RowRanges: []*btpb.RowRange{rr}}, Filter: &btpb.RowFilter{Filter: &btpb.RowFilter_StripValueTransformer{StripValueTransformer: true}}})
				if res.Err != nil && status.Code(res.Err) != codes.InvalidArgument {
					r.Fail("read-failed", "", "ReadRows %v on the large table: %v", rr, res.Err)
					return
				}
				r.Probe("c20.degenerate_range_on_a_row_with_its_own_table_file")
			}
		}
	}
	s := r.NewSched()
	s.Budget = 600000
	nOps := 1 + cfg.Intn(4)
	roles := []int{cfg.Intn(6), cfg.Intn(6), cfg.Intn(6)}
	if r.Index < 12 {
		roles = [][]int{{0, 1, 2}, {3, 4, 1}, {0, 3, 5}, {2, 4, 5}}[r.Index%4]
	}
	if huge {
		roles = [][]int{{1, 5, 2}, {1, 5, 3}}[r.Index%2]
		nOps = 2
	}
	sendFail := cfg.Intn(4) == 3
	if sendFail {
		w.SendFail = func(kind string, nth int) bool { return kind == "ReadRows" && nth == 1 }
	}
	okOrStatus := func(what string, err error) {
		if err == nil {
			return
		}
		if _, ok := status.FromError(err); !ok && len(err.Error()) >= 9 && err.Error()[:9] == "MALFORMED" {
			r.Fail("malformed-response", "", "%s: %v", what, err)
		}
	}
	for ti, role := range roles {
		role, ti := role, ti
		s.Go(fmt.Sprintf("t%d.role%d", ti, role), func() {
			for i := 0; i < nOps && !r.Failed(); i++ {
				switch role {
				case 0: // delete and re-create the table
					okOrStatus("DeleteTable", w.DeleteTable(tmp))
					_, err := w.CreateTable("projects/p/instances/i", "tmp", map[string]*btapb.GcRule{"f1": nil})
					okOrStatus("CreateTable", err)
					r.Probe("c20.table_delete_create_race")
				case 1: // scan
					rr := w.ReadAll(tmp)
					if rr.Bad != nil {
						r.Fail("malformed-response", "", "scan during admin changes: %v", rr.Bad)
					}
					okOrStatus("ReadRows", rr.Err)
					if rr.Msgs >= 2 {
						r.Probe("c20.multi_message_scan_in_mix")
					}
				case 2: // mutate
					okOrStatus("MutateRow", w.MutateRow(tmp, fmt.Sprintf("t%03d", i), mutList{setCell("f1", "q00", 2000, "w")}))
					_, err := w.RMW(tmp, "ctr", []*btpb.ReadModifyWriteRule{{FamilyName: "f1", ColumnQualifier: []byte("n"), Rule: &btpb.ReadModifyWriteRule_IncrementAmount{IncrementAmount: 1}}})
					okOrStatus("RMW", err)
				case 3: // schema change while fetching the schema
					_, err := w.ModifyFamilies(tmp, []*btapb.ModifyColumnFamiliesRequest_Modification{{Id: "f2", Mod: &btapb.ModifyColumnFamiliesRequest_Modification_Drop{Drop: true}}})
					okOrStatus("Modify", err)
					_, err = w.ModifyFamilies(tmp, []*btapb.ModifyColumnFamiliesRequest_Modification{{Id: "f2", Mod: &btapb.ModifyColumnFamiliesRequest_Modification_Create{Create: &btapb.ColumnFamily{}}}})
					okOrStatus("Modify", err)
					r.Probe("c20.schema_change_race")
				case 4: // fetch the schema, list tables
					_, err := w.GetTable(tmp)
					okOrStatus("GetTable", err)
					// every view of the listing (a view may make the server look into each table)
					_, err = w.ListTablesView("projects/p/instances/i", []btapb.Table_View{btapb.Table_VIEW_UNSPECIFIED, btapb.Table_NAME_ONLY, btapb.Table_SCHEMA_VIEW, btapb.Table_FULL}[(i+ti)%4])
					okOrStatus("ListTables", err)
				default: // drop rows during scans
					okOrStatus("DropRowRange", w.DropRowRange(tmp, []byte("t00"), false))
					okOrStatus("DropRowRange", w.DropRowRange(tmp, nil, true))
					r.Probe("c20.drop_during_scan")
				}
			}
		})
	}
	// a reader of the kept table runs throughout: it must never be disturbed
	s.Go("keeper", func() {
		for i := 0; i < 2 && !r.Failed(); i++ {
			op := btOp{Kind: "ReadAll", Table: c20Keep}
			if k, msg := model.step(op, execOp(w, op), clk.ServerUs); k != "" {
				r.Fail("bystander-disturbed", "", "a scan of an untouched table during the mix: %s %s", k, msg)
			}
		}
	})
	v := s.Run()
	r.FinishSched(s, v)
	w.SendFail = nil
	if r.V != nil && r.V.Kind == "panic" && engine == engLdbDisk {
		// recorded finding: the object of a deleted table keeps working on the directory that the
		// re-created table of the same name now owns (see known_findings.json)
		has := map[int]bool{}
		for _, x := range roles {
			has[x] = true
		}
		m := r.V.Msg
		if has[0] && has[5] && strings.Contains(m, "resource temporarily unavailable") && (strings.Contains(m, "leveldbRows).Clear") || strings.Contains(m, "LeveldbDiskStorage.Create")) {
			r.V.Witness = "disk-clear-races-table-recreate"
		}
	}
	r.Sample = map[string]interface{}{"mode": "bt-mix", "engine": engine, "roles": roles, "ops": nOps, "big": big, "steps": s.Steps, "preemptions": s.Pre}
	if r.Failed() {
		return
	}
	c20BTProbe(r, w, model, "after the concurrent mix")
}

var _ = math.MaxInt32
