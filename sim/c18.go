package main

import (
	"fmt"
	"sort"

	btpb "cloud.google.com/go/bigtable/apiv2/bigtablepb"
	"google.golang.org/grpc/codes"
)

// C18: a multi-message scan running concurrently with row writes and deletions (leveldb engines).

func init() {
	register(&PropDef{
		ID: "C18", Level: "exploration", Quick: 9000, Thorough: 150000, QuickCap: 110,
		Rule:   "each run = a table of 3-60 rows with a drawn number of cells (so that the scan spans 1..several response messages; the batch size is never assumed), one scanner task (full scan, 2-3 ranges, ranges plus repeated keys, or keys only with every row named twice) and 1-3 writer tasks (one writer per row; SetCell, DeleteFromColumn, DeleteFromRow, re-insert, ReadModifyWrite) on rows before, at and after the scan position, interleaved by the seeded scheduler (the stream's Send is where the table lock is free); oracle: ascending keys, no duplicates, every returned row is a state that row had inside the scan window, unwritten rows exact, final status OK; distinct = trace hash; non-trivial = a writer operation completed between two messages of the scan",
		Real:   []string{"bttest ReadRows (lock reversal around Send), MutateRow, ReadModifyWriteRow", "goleveldb snapshot iteration (memory and disk engines)"},
		Stub:   []string{"gRPC stream (recording stream whose Send yields)", "cooperative table mutex"},
		Assume: []string{"a row written during the scan may show any state it had inside the scan window; a row that is non-empty in all of those states must be present", "btree engine excluded (it documents that it does not offer this)"},
		Run:    runC18,
	})
	expectedProbes["C18"] = []string{"c18.multi_message", "c18.write_between_messages", "c18.row_deleted_during_scan", "c18.row_inserted_during_scan", "c18.returned_old_state", "c18.returned_new_state", "c18.keys_only_rowset", "c18.client_gone_mid_scan", "c18.lazy_transport", "c18.consumer_writes_before_reading_on"}
}

type rowVersion struct {
	state mRow
	call  int64 // window of the operation that produced it (0,0 for the initial state)
	ret   int64
}

func runC18(r *Run) {
	cfg := r.T.S("cfg")
	engine := []string{engLdbMem, engLdbMem, engLdbMem, engLdbDisk}[cfg.Intn(4)]
	nRows := 3 + cfg.Intn(58)
	cellsPerRow := []int{1, 5, 30, 120}[cfg.Intn(4)]
	nWriters := 1 + cfg.Intn(3)
	opsPerWriter := 1 + cfg.Intn(6)
	multiRange := cfg.Intn(3) == 2
	if r.Index < 4 { // directed: large enough for several messages on every engine
		nRows, cellsPerRow, nWriters, opsPerWriter = 30+10*r.Index, 60, 2, 4
		engine = []string{engLdbMem, engLdbDisk}[r.Index%2]
	}
	clk := NewClock(1_700_000_000_000_000, 1_700_000_000_000_000_000)
	w := NewBTWorld(r, engine, clk, "")
	defer w.Destroy()
	const tbl = "projects/p/instances/i/tables/t"
	if _, err := w.CreateTable("projects/p/instances/i", "t", map[string]*btapbGc{"f1": nil, "f2": nil}); err != nil {
		r.Fail("setup", "", "CreateTable: %v", err)
		return
	}
	mt := newMTable()
	mt.Fams["f1"], mt.Fams["f2"] = nil, nil
	// initial content; every third key is initially absent (so that inserts can happen)
	var keys []string
	var entries []entryIn
	for i := 0; i < nRows; i++ {
		k := fmt.Sprintf("row%03d", i)
		keys = append(keys, k)
		if i%3 == 2 {
			continue
		}
		var muts mutList
		for c := 0; c < cellsPerRow; c++ {
			muts = append(muts, setCell([]string{"f1", "f2"}[c%2], fmt.Sprintf("q%02d", c/4), int64(1+c%4)*1000, fmt.Sprintf("i%d.%d", i, c)))
		}
		entries = append(entries, entryIn{Key: k, Muts: muts})
		o := mt.applyMutations(mRow{}, muts, 0)
		mt.Rows[k] = o.row
	}
	for i := 0; i < len(entries); i += 50 {
		j := i + 50
		if j > len(entries) {
			j = len(entries)
		}
		cs, err := w.MutateRows(tbl, entries[i:j])
		if err != nil {
			r.Fail("setup", "", "MutateRows: %v", err)
			return
		}
		for _, c := range cs {
			if c != codes.OK {
				r.Fail("setup", "", "entry rejected: %v", c)
				return
			}
		}
	}
	versions := map[string][]rowVersion{}
	for _, k := range keys {
		versions[k] = []rowVersion{{state: mt.row(k).clone()}}
	}
	written := map[string]bool{}

	var evt int64
	writerDone := make([]int, 4)
	writerLeft := make([]int, 4)
	s := r.NewSched()
	s.Budget = 400000
	// writers: writer j owns rows with index % nWriters == j among a drawn subset
	for j := 0; j < nWriters; j++ {
		j := j
		ps := r.T.S(fmt.Sprintf("prog.%d", j+1))
		type wop struct {
			key  string
			kind int
			d    *draws
		}
		var plan []wop
		for i := 0; i < 6; i++ {
			d := record(ps, 8)
			// rows of this writer: those with idx % nWriters == j
			cnt := (nRows - j + nWriters - 1) / nWriters
			idx := j + nWriters*d.n(cnt)
			if idx >= nRows {
				idx = j
			}
			if i < opsPerWriter {
				plan = append(plan, wop{key: keys[idx], kind: d.w(4, 2, 2, 2), d: d})
			}
		}
		for _, p := range plan {
			written[p.key] = true
		}
		writerLeft[j] = len(plan)
		s.Go(fmt.Sprintf("w%d", j), func() {
			seq := 0
			for _, p := range plan {
				if r.Failed() {
					return
				}
				seq++
				cur := versions[p.key][len(versions[p.key])-1].state
				evt++
				call := evt
				var next mRow
				var err error
				switch p.kind {
				case 0: // set a new cell / overwrite
					m := mutList{setCell("f1", "q00", int64(1+p.d.n(5))*1000, fmt.Sprintf("w%d.%d", j, seq))}
					next = mt.applyMutations(cur, m, 0).row
					err = w.MutateRow(tbl, p.key, m)
				case 1: // delete the row
					m := mutList{{Mutation: &btpb.Mutation_DeleteFromRow_{DeleteFromRow: &btpb.Mutation_DeleteFromRow{}}}}
					next = mRow{}
					err = w.MutateRow(tbl, p.key, m)
				case 2: // delete one column, set another (multi-mutation request)
					m := mutList{{Mutation: &btpb.Mutation_DeleteFromColumn_{DeleteFromColumn: &btpb.Mutation_DeleteFromColumn{FamilyName: "f1", ColumnQualifier: []byte("q00")}}},
						setCell("f2", "z", 1000, fmt.Sprintf("w%d.%d", j, seq)), setCell("f1", "zz", 2000, fmt.Sprintf("w%d.%d", j, seq))}
					next = mt.applyMutations(cur, m, 0).row
					err = w.MutateRow(tbl, p.key, m)
				default: // read-modify-write append
					rules := []*btpb.ReadModifyWriteRule{{FamilyName: "f2", ColumnQualifier: []byte("rmw"), Rule: &btpb.ReadModifyWriteRule_AppendValue{AppendValue: []byte(fmt.Sprintf("<%d.%d>", j, seq))}}}
					nr, _, _, _ := mt.rmw(cur, rules, clk.ServerUs)
					next = nr
					_, err = w.RMW(tbl, p.key, rules)
				}
				evt++
				if err != nil {
					r.Fail("writer-failed", "", "writer %d: request on %q failed: %v", j, p.key, err)
					return
				}
				next.prune()
				versions[p.key] = append(versions[p.key], rowVersion{state: next, call: call, ret: evt})
				writerDone[j]++
				writerLeft[j]--
			}
		})
	}
	// scanner
	var res readResult
	var scanCall, scanRet int64
	var rowset mRowSet
	if multiRange {
		d := record(r.T.S("prog.0"), 8)
		a, b, c := d.n(nRows), d.n(nRows), d.n(nRows)
		x := []int{a, b, c}
		sort.Ints(x)
		rowset.ranges = []mRange{{end: mBound{1, keys[x[0]]}}, {start: mBound{2, keys[x[1]]}, end: mBound{2, keys[x[2]]}}}
		if d.n(2) == 1 {
			rowset.ranges = append(rowset.ranges, mRange{start: mBound{1, keys[x[2]]}})
		}
		switch d.n(4) {
		case 2:
			// single keys as well, some of them twice or inside a range
			rowset.keys = []string{keys[x[1]], keys[a], keys[x[1]]}
		case 3:
			// keys only, with repeats (the whole table, every row named twice, in no order)
			rowset.ranges = nil
			for i := range keys {
				rowset.keys = append(rowset.keys, keys[(i*7+a)%nRows], keys[i])
			}
			r.Probe("c18.keys_only_rowset")
		}
	}
	// in some runs the client goes away while a batch is being streamed: the n-th Send fails.
	// The scan may then end with an error, but the server must stay up and release its locks.
	sendFailAt := -1
	if cfg.Intn(5) == 4 {
		sendFailAt = cfg.Intn(3)
		w.SendFail = func(kind string, nth int) bool { return kind == "ReadRows" && nth == sendFailAt }
		defer func() { w.SendFail = nil }()
	}
	// in some runs the transport serialises the messages only when the scan is over
	if cfg.Intn(4) == 3 && sendFailAt < 0 {
		w.LazySend = true
		r.Probe("c18.lazy_transport")
		defer func() { w.LazySend = false }()
	}
	// in some runs the consumer of the stream does a write of its own before it reads on: the
	// n-th Send returns only after writer 0 has completed one more request (a single-threaded
	// client under flow control). A scan that keeps the table locked while it sends never ends.
	if cfg.Intn(4) == 2 && sendFailAt < 0 {
		w.SendGate = func(n int) {
			if writerLeft[0] == 0 {
				return
			}
			target := writerDone[0] + 1
			r.Probe("c18.consumer_writes_before_reading_on")
			for writerDone[0] < target && writerLeft[0] > 0 && !r.Failed() {
				hookBlock("stream.Send.consumer")
			}
		}
		defer func() { w.SendGate = nil }()
	}
	var msgEvt []int64
	s.Go("scan", func() {
		evt++
		scanCall = evt
		req := &btpb.ReadRowsRequest{TableName: tbl, Rows: rowset.toProto()}
		res = w.ReadRows(req)
		evt++
		scanRet = evt
	})
	// stamp each message with the event counter: done through the stream's step stamps
	v := s.Run()
	w.SendFail, w.SendGate, w.LazySend = nil, nil, false
	r.FinishSched(s, v)
	_ = msgEvt
	r.Sample = map[string]interface{}{"engine": engine, "rows": nRows, "cells_per_row": cellsPerRow, "writers": nWriters, "ops_per_writer": opsPerWriter, "rowset": rowSetString(rowset), "messages": res.Msgs, "steps": s.Steps, "preemptions": s.Pre}
	if r.Failed() {
		return
	}
	if res.Msgs >= 2 {
		r.Probe("c18.multi_message")
	}
	if res.Bad != nil {
		r.Fail("malformed-stream", "", "scan: %v", res.Bad)
		return
	}
	if sendFailAt >= 0 && res.Msgs >= sendFailAt && res.Err != nil {
		// the injected transport failure ended the scan; everything else in the run (writers,
		// locks, no panic) has been checked by the scheduler verdicts; the table still serves
		r.Probe("c18.client_gone_mid_scan")
		if rr := w.ReadAll(tbl); rr.Err != nil || rr.Bad != nil {
			r.Fail("scan-failed", "", "after a scan whose client went away, a fresh scan fails: %v %v", rr.Err, rr.Bad)
		}
		return
	}
	if res.Err != nil {
		r.Fail("scan-failed", "", "scan ended with %v", res.Err)
		return
	}
	// order / duplicates / shape
	got := map[string]ORow{}
	for i, row := range res.Rows {
		if i > 0 && res.Rows[i-1].Key >= row.Key {
			r.Fail("scan-order", "", "rows not strictly ascending: %q then %q", res.Rows[i-1].Key, row.Key)
			return
		}
		if err := checkRowShape(row, false); err != nil {
			r.Fail("row-shape", "", "%v", err)
			return
		}
		got[row.Key] = row.canonical()
		r.Mix(row.String())
	}
	betweenMsgs := false
	for _, k := range keys {
		if !rowset.contains(k) {
			if _, ok := got[k]; ok {
				r.Fail("scan-outside-rowset", "", "row %q is outside the requested row set", k)
				return
			}
			continue
		}
		vs := versions[k]
		// states alive at some instant inside [scanCall, scanRet]
		var alive []mRow
		for i, ver := range vs {
			if ver.call > scanRet {
				continue // came into being after the scan ended
			}
			if i+1 < len(vs) && vs[i+1].ret < scanCall {
				continue // replaced before the scan began
			}
			alive = append(alive, ver.state)
			if i > 0 && ver.call > scanCall && ver.ret < scanRet && res.Msgs >= 2 {
				betweenMsgs = true
			}
		}
		g, present := got[k]
		ok := false
		allNonEmpty := true
		for ai, st := range alive {
			if st.empty() {
				allNonEmpty = false
				if !present {
					ok = true
				}
				continue
			}
			if present && equalRows(g, st.render(k)) {
				ok = true
				if len(alive) > 1 {
					if ai == 0 {
						r.Probe("c18.returned_old_state")
					} else {
						r.Probe("c18.returned_new_state")
					}
				}
			}
		}
		if !present && !allNonEmpty {
			ok = true
		}
		if !present && allNonEmpty {
			r.Fail("scan-missing-row", "", "row %q was non-empty throughout the scan but is missing from the result (written during scan: %v)", k, written[k] && len(alive) > 1)
			return
		}
		if !ok {
			var alts []string
			for _, st := range alive {
				alts = append(alts, st.render(k).String())
			}
			r.Fail("scan-row-state", "", "row %q returned as %s, which is none of the states it had during the scan: %v", k, g, alts)
			return
		}
		if len(vs) > 1 {
			if vs[0].state.empty() {
				r.Probe("c18.row_inserted_during_scan")
			}
			for _, ver := range vs[1:] {
				if ver.state.empty() {
					r.Probe("c18.row_deleted_during_scan")
				}
			}
		}
	}
	if betweenMsgs {
		r.Probe("c18.write_between_messages")
		r.nontrivial = true
	}
	// afterwards: the table equals the final states
	final := w.ReadAll(tbl)
	if final.Err != nil || final.Bad != nil {
		r.Fail("final-read", "", "%v %v", final.Err, final.Bad)
		return
	}
	fm := newMTable()
	for _, k := range keys {
		vs := versions[k]
		if st := vs[len(vs)-1].state; !st.empty() {
			fm.Rows[k] = st
		}
	}
	if err := compareRows("final state", final.Rows, fm.render(), false); err != nil {
		r.Fail("final-state", "", "%v", err)
	}
}
