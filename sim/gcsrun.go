package main

import (
	"fmt"
	"net/url"
	"sort"
)

// Sequential GCS programs: generation pieces and the generic runner.

var gNamesMem = []string{"a", "a.txt", "dir/a", "dir/b.txt", "sp ace.bin", "uni-é☃", "pct%41%2Fx", "a+b&c=d?e#f", "dir/sub/deep.json", "d.o.t.s", "a/b", "a0", "a.txt.tmp", "a.txt~"}
var gNamesFile = []string{"a.txt", "a/1", "a-x", "dir/a", "dir/b.txt", "sp ace.bin", "uni-é☃", "pct%41%2Fx", "a+b&c=d?e#f", "dir/sub/deep.json", "d.o.t.s", "a0", "b", "a.txt.tmp", "a.txt~", "a.txt.new"}
var gBuckets = []string{"bkt", "other-bucket"}
var gContentTypes = []string{"text/plain", "application/octet-stream", "application/json; charset=utf-8", "image/png", "", "application/x-www-form-urlencoded"}

type gGen struct {
	store string
	seq   int
	big   bool
}

func (g *gGen) names() []string {
	if g.store == "file" {
		return gNamesFile
	}
	return gNamesMem
}

func (g *gGen) content(d *draws) []byte {
	g.seq++
	switch d.w(2, 2, 6, 3, 1) {
	case 0:
		return []byte{}
	case 1:
		return []byte{byte(g.seq)}
	case 2:
		return []byte(fmt.Sprintf("content-%d-\x00\xff\r\n--sim_boundary_7f3a\r\n", g.seq))
	case 3:
		b := make([]byte, 300+d.n(700))
		for i := range b {
			b[i] = byte(i*31 + g.seq)
		}
		return b
	default:
		if !g.big {
			return []byte(fmt.Sprintf("c%d", g.seq))
		}
		b := make([]byte, 256<<10+1)
		for i := range b {
			b[i] = byte(i*7 + g.seq)
		}
		return b
	}
}

// conds draws one value per parameter: unset / current / different (+ zero for GenMatch, junk).
// Consumes exactly 4 draws. junkOK enables unparsable values.
func (g *gGen) conds(d *draws, cur *gObj, junkOK bool) gConds {
	var c gConds
	curGen, curMeta := int64(1234), int64(1)
	if cur != nil {
		curGen, curMeta = cur.Gen, cur.Metagen
	}
	jw := 0
	if junkOK {
		jw = 1
	}
	switch d.w(12, 3, 3, 3, jw) {
	case 1:
		c.GenMatch = ip(0)
	case 2:
		c.GenMatch = ip(curGen)
	case 3:
		c.GenMatch = ip(curGen + 1)
	case 4:
		c.GenMatch = sp("12x")
	}
	switch d.w(14, 2, 2, jw) {
	case 1:
		c.GenNotMatch = ip(curGen)
	case 2:
		c.GenNotMatch = ip(curGen + 7)
	case 3:
		c.GenNotMatch = sp("abc")
	}
	switch d.w(14, 2, 2, jw) {
	case 1:
		c.MetaMatch = ip(curMeta)
	case 2:
		c.MetaMatch = ip(curMeta + 1)
	case 3:
		c.MetaMatch = sp("1.5")
	}
	switch d.w(14, 2, 2, jw) {
	case 1:
		c.MetaNotMatch = ip(curMeta)
	case 2:
		c.MetaNotMatch = ip(curMeta + 3)
	case 3:
		c.MetaNotMatch = sp("")
		c.MetaNotMatch = sp("-")
	}
	return c
}

func (g *gGen) userMeta(d *draws) map[string]string {
	switch d.w(3, 2, 1) {
	case 0:
		return nil
	case 1:
		g.seq++
		return map[string]string{"k": fmt.Sprintf("v%d", g.seq)}
	default:
		g.seq++
		return map[string]string{"k": fmt.Sprintf("v%d", g.seq), "other key": "x y", "uni": "é"}
	}
}

// resum consumes exactly 12 draws.
func (g *gGen) resum(d *draws, n int) *resumPlan {
	sub := d.sub(12)
	p := &resumPlan{KnownTotal: sub.n(2) == 0, StarQuery: sub.n(2) == 1}
	switch sub.w(3, 3, 2, 2) {
	case 0: // one chunk
	case 1:
		if n > 1 {
			p.Chunks = []int{1 + sub.n(n-1)}
		}
	case 2:
		if n > 3 {
			a := 1 + sub.n(n/2)
			p.Chunks = []int{a, 1 + sub.n(n/2)}
		}
	default:
		p.Chunks = []int{1, 1, 1}
	}
	for i := 0; i < 4; i++ {
		p.Actions = append(p.Actions, sub.w(8, 2, 2, 1, 1, 2, 1, 2))
	}
	return p
}

// upload consumes a bounded number of draws (< 40).
func (g *gGen) upload(d *draws, bucket, name string, conds gConds) gOp {
	content := g.content(d)
	u := upSpec{Bucket: bucket, Name: name, Content: content, Conds: conds, ContentType: gContentTypes[d.w(8, 4, 4, 2, 4, 1)], Gzip: d.n(6) == 5}
	op := gOp{Kind: "Upload", Up: u}
	proto := d.w(4, 4, 4)
	plan := g.resum(d, len(content))
	md5mode := d.w(5, 3, 2)
	meta := g.userMeta(d)
	switch proto {
	case 0:
		op.Proto = "media"
	case 1:
		op.Proto = "multipart"
		op.Up.Metadata = meta
	default:
		op.Proto = "resumable"
		op.Up.Metadata = meta
		op.Resum = plan
	}
	if proto != 0 {
		switch md5mode {
		case 1:
			op.Up.Md5 = md5b64(content)
		case 2:
			op.Up.Md5 = md5b64(append([]byte("x"), content...))
			op.BadMd5 = true
		}
		if d.n(5) == 4 {
			op.Up.Extra = map[string]interface{}{"cacheControl": "no-cache", "contentLanguage": "en"}
		}
	}
	return op
}

type gSeqSpec struct {
	Store        string
	NOps         int
	Gen          func(d *draws, m *gModel, i int) gOp
	FullEvery    int
	Restarts     bool
	After        func(op gOp, resp gResp, m *gModel, w *GCSWorld) bool
	Witness      func(op gOp, kind string) string
	Records      [][]int // pre-drawn records (differential runs share them)
	RestartEvery bool    // restart the file store after every request
	OverHTTP     bool    // serve through a real net/http server on a loopback socket
}

type gSeqResult struct {
	Shapes []string
	World  *GCSWorld
	Model  *gModel
}

func gOpShape(op gOp) string {
	s := op.Kind
	if op.Kind == "Upload" {
		s += ":" + op.Proto
		if op.BadMd5 {
			s += "!md5"
		}
		if op.Up.Conds.String() != "" {
			s += "?"
		}
	}
	if op.Kind == "Media" {
		s += fmt.Sprint(op.Form)
	}
	if op.Conds.String() != "" {
		s += "?"
	}
	return s
}

func runGSeq(r *Run, spec gSeqSpec, clk *Clock) *gSeqResult {
	w := NewGCSWorld(r, spec.Store, "", clk)
	if spec.OverHTTP {
		w.ServeOverHTTP()
	}
	res := &gSeqResult{World: w, Model: newGModel()}
	r.Defer(func() { res.World.Destroy() })
	ps := r.T.S("prog.0")
	m := res.Model
	check := func(op gOp) bool {
		// in half of the runs: the complete resource (every member the emulator reports, not only
		// the ones the model follows) and content of every object the request does not name must
		// be the same before and after it, whatever the request answers
		var before map[string]string
		if r.Index%2 == 0 && op.Kind != "CreateBucket" && op.Kind != "DeleteBucket" && op.Between == nil {
			before = rawStateG(res.World, m)
		}
		resp := execG(res.World, op)
		r.Hist(map[string]interface{}{"op": op.String(), "status": resp.Status, "meta": resp.Meta.String(), "trace": resp.Trace})
		if r.Failed() {
			return false
		}
		if before != nil {
			for _, t := range gOpTargets(op) {
				delete(before, t)
			}
			after := rawStateG(res.World, m)
			for k, v := range before {
				if a, ok := after[k]; ok && a != v {
					r.Fail("other-object-changed", "", "%s (HTTP %d) changed an object it does not name: %s was %s and is now %s", op, resp.Status, k, v, a)
					return false
				}
			}
			r.Probe("gcs.other_objects_compared_complete")
		}
		if k, msg := m.step(op, resp); k != "" {
			wit := ""
			if spec.Witness != nil {
				wit = spec.Witness(op, k)
			}
			r.Fail(k, wit, "%s", msg)
			return false
		}
		if !ok2xx(resp.Status) && resp.Status != 304 && resp.Status != 308 {
			// every failing case leaves everything as it was: checked by the full comparison below
		}
		if spec.After != nil {
			return spec.After(op, resp, m, res.World)
		}
		return true
	}
	for _, b := range gBuckets {
		if !check(gOp{Kind: "CreateBucket", Bucket: b}) {
			return res
		}
	}
	r.Mix(spec.Store)
	for i := 0; i < spec.NOps && !r.Failed(); i++ {
		var d *draws
		if spec.Records != nil {
			d = &draws{v: spec.Records[i]}
		} else {
			d = record(ps, 96)
		}
		op := spec.Gen(d, m, i)
		res.Shapes = append(res.Shapes, gOpShape(op))
		failedBefore := false
		if !check(op) {
			break
		}
		_ = failedBefore
		if spec.FullEvery > 0 && i%spec.FullEvery == 0 {
			if k, msg := fullCompareG(res.World, m); k != "" {
				r.Fail(k, "", "after %s: %s", op, msg)
				break
			}
		}
		if spec.Store == "file" && (spec.RestartEvery || (spec.Restarts && r.T.S("fault").Intn(5) == 4)) {
			r.Fault("restart_boundary")
			r.Probe("gcs.restart")
			res.World = res.World.Restart()
			if k, msg := fullCompareG(res.World, m); k != "" {
				r.Fail(k, "", "after a restart following %s: %s", op, msg)
				break
			}
		}
	}
	if !r.Failed() {
		if k, msg := fullCompareG(res.World, m); k != "" {
			r.Fail(k, "", "final state: %s", msg)
		}
	}
	for _, s := range res.Shapes {
		r.Mix(s)
	}
	r.nontrivial = len(res.Shapes) >= 2
	return res
}

func pickStore(r *Run, cfg *Stream) string {
	if r.Index < 2 {
		cfg.Intn(1)
		return []string{"mem", "file"}[r.Index]
	}
	return []string{"mem", "file"}[cfg.Weighted([]int{3, 2})]
}

// wallIncreasing: baseline wall clock, strictly increasing by a drawn amount per read.
func wallIncreasing(r *Run, clk *Clock) {
	cs := r.T.S("clock")
	scale := 0
	clk.WallTick = func() int64 {
		if scale == 0 {
			// per run: the clock advances by nanoseconds, by less than a microsecond, or by
			// up to milliseconds between two reads (strictly increasing in every case)
			scale = []int{5_000_000, 3, 900, 2_000_000}[cs.Intn(4)]
		}
		d := int64(1 + cs.Intn(scale))
		r.SimWallNs += d
		return d
	}
}

func existingName(d *draws, m *gModel, b string, names []string) string {
	ex := m.names(b)
	if len(ex) > 0 && d.w(3, 1) == 0 {
		return ex[d.n(len(ex))]
	}
	d.n(1)
	return names[d.n(len(names))]
}

func sortedKeys(m map[string]bool) []string {
	var ks []string
	for k := range m {
		ks = append(ks, k)
	}
	sort.Strings(ks)
	return ks
}

var _ = url.Values{}

// gOpTargets: the objects ("bucket/name") a request may legitimately change.
func gOpTargets(op gOp) []string {
	switch op.Kind {
	case "Upload":
		return []string{op.Up.Bucket + "/" + op.Up.Name}
	case "Copy":
		return []string{op.DstB + "/" + op.DstN}
	}
	return []string{op.Bucket + "/" + op.Name}
}
