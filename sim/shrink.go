package main

import (
	"encoding/json"
	"flag"
	"fmt"
	"os"
	"sort"
	"strings"
	"time"
)

// Minimisation of a failing tape, per stream: truncate, delete blocks, zero, halve, decrement.
// A candidate is kept only if the run ends in the same violation class.

type shrinker struct {
	p      *PropDef
	rf     *ReplayFile
	class  string
	best   map[string][]int
	execs  int
	budget int
	stop   time.Time
	lastV  *Violation
}

func cloneTape(t map[string][]int) map[string][]int {
	o := map[string][]int{}
	for k, v := range t {
		o[k] = append([]int(nil), v...)
	}
	return o
}

func tapeSize(t map[string][]int) (n int, sum int) {
	for _, v := range t {
		n += len(v)
		for _, x := range v {
			sum += x
		}
	}
	return
}

func (s *shrinker) try(c map[string][]int) bool {
	if s.execs >= s.budget || time.Now().After(s.stop) {
		return false
	}
	s.execs++
	rf := *s.rf
	rf.Streams = c
	r, err := runReplay(s.p, &rf, false)
	if err != nil || r.V == nil || r.V.Class() != s.class {
		return false
	}
	// adopt what was actually consumed (normalised; never longer than the candidate)
	s.best = r.T.Record()
	s.lastV = r.V
	return true
}

func streamOrder(t map[string][]int) []string {
	names := streamNames(t)
	rank := func(n string) int {
		switch {
		case strings.HasPrefix(n, "prog"):
			return 0
		case strings.HasPrefix(n, "fault"):
			return 1
		case strings.HasPrefix(n, "sched"):
			return 2
		case strings.HasPrefix(n, "clock"):
			return 3
		case strings.HasPrefix(n, "rng"):
			return 4
		case strings.HasPrefix(n, "buggify"):
			return 5
		}
		return 6
	}
	sort.SliceStable(names, func(a, b int) bool { return rank(names[a]) < rank(names[b]) })
	return names
}

func (s *shrinker) pass() bool {
	improved := false
	for _, name := range streamOrder(s.best) {
		// 1. drop the whole stream
		if len(s.best[name]) > 0 {
			c := cloneTape(s.best)
			c[name] = nil
			if s.try(c) {
				improved = true
				continue
			}
		}
		// 1b. delete whole fixed-width records (one operation each), last first
		if w := recWidth(name); w > 0 {
			for i := (len(s.best[name]) - 1) / w * w; i >= 0; i -= w {
				if i >= len(s.best[name]) {
					continue
				}
				c := cloneTape(s.best)
				end := i + w
				if end > len(c[name]) {
					end = len(c[name])
				}
				c[name] = append(c[name][:i:i], c[name][end:]...)
				if s.try(c) {
					improved = true
				}
				if s.execs >= s.budget {
					return improved
				}
			}
		}
		// 2. truncate tail (binary)
		for cut := len(s.best[name]) / 2; cut >= 1; cut /= 2 {
			for len(s.best[name]) >= cut {
				c := cloneTape(s.best)
				c[name] = c[name][:len(c[name])-cut]
				if !s.try(c) {
					break
				}
				improved = true
			}
		}
		// 3. delete blocks
		for _, bl := range []int{16, 8, 4, 2, 1} {
			for i := 0; i+bl <= len(s.best[name]); {
				c := cloneTape(s.best)
				c[name] = append(c[name][:i:i], c[name][i+bl:]...)
				if s.try(c) {
					improved = true
				} else {
					i += bl
				}
				if s.execs >= s.budget {
					return improved
				}
			}
		}
		// 4. zero, halve, decrement
		for i := 0; i < len(s.best[name]); i++ {
			v := s.best[name][i]
			if v == 0 {
				continue
			}
			for _, nv := range []int{0, v / 2, v - 1} {
				if nv >= v || i >= len(s.best[name]) || s.best[name][i] != v {
					continue
				}
				c := cloneTape(s.best)
				c[name][i] = nv
				if s.try(c) {
					improved = true
					break
				}
			}
			if s.execs >= s.budget {
				return improved
			}
		}
	}
	return improved
}

func cmdShrink(args []string) int {
	startWatchdog()
	fs := flag.NewFlagSet("shrink", flag.ExitOnError)
	in := fs.String("in", "", "")
	out := fs.String("out", "", "")
	budget := fs.Int("budget", 2000, "")
	secs := fs.Int("secs", 60, "")
	fs.Parse(args)
	b, err := os.ReadFile(*in)
	if err != nil {
		fmt.Fprintln(os.Stderr, err)
		return 2
	}
	var rf ReplayFile
	if err := json.Unmarshal(b, &rf); err != nil {
		fmt.Fprintln(os.Stderr, err)
		return 2
	}
	p := props[rf.Property]
	if p == nil {
		return 2
	}
	// the recorded tape must reproduce first
	r0, err := runReplay(p, &rf, false)
	if err != nil {
		fmt.Fprintln(os.Stderr, "infrastructure error while replaying:", err)
		return 2
	}
	if r0.V == nil || r0.V.Class() != rf.Class {
		got := "no violation"
		if r0.V != nil {
			got = r0.V.Class()
		}
		fmt.Fprintf(os.Stderr, "recorded tape does not reproduce %s (got %s): nondeterminism\n", rf.Class, got)
		return 2
	}
	s := &shrinker{p: p, rf: &rf, class: rf.Class, best: r0.T.Record(), budget: *budget, stop: time.Now().Add(time.Duration(*secs) * time.Second), lastV: r0.V}
	for s.pass() {
	}
	// final run with trace/history kept
	rf.Streams = s.best
	rf.Minimised = true
	rf.Reexecutions = s.execs
	r, err := runReplay(p, &rf, true)
	if err != nil || r.V == nil || r.V.Class() != rf.Class {
		fmt.Fprintln(os.Stderr, "minimised tape does not reproduce")
		return 2
	}
	rf.Violation = r.V
	rf.Sample = r.Sample
	if r.Sched != nil {
		rf.Trace = r.Sched.Trace()
	}
	rf.History = r.History
	ob, _ := json.MarshalIndent(&rf, "", " ")
	if err := os.WriteFile(*out, ob, 0666); err != nil {
		fmt.Fprintln(os.Stderr, err)
		return 2
	}
	return 0
}

// recWidth: program streams are laid out in fixed-width records (see record()).
var recWidths = map[string]int{}

func recWidth(stream string) int {
	if strings.HasPrefix(stream, "prog") {
		return recWidths["prog"]
	}
	return 0
}
