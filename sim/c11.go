package main

import (
	"fmt"
	"net/url"
	"sort"
	"strings"
)

// C11: listing is complete, duplicate-free and ordered for any prefix / delimiter / page size.

var c11UMem = []string{"a", "a.txt", "a/b", "a0", "b/c", "b/d"}
var c11UFile = []string{"a.txt", "a/b", "a0", "b/c", "b/d", "a/c/d"}
var c11Prefixes = []string{"", "a", "a/", "a.", "b", "b/", "c"}
var c11Delims = []string{"", "/", "."}
var c11Max = []int{1, 2, 3, 100}

func init() {
	register(&PropDef{
		ID: "C11", Level: "exploration", Quick: 5600, Thorough: 200000, QuickCap: 100,
		Rule:   "two parts per run. small universe: every subset of a 6-name universe (nested directories and the a.txt / a/b / a0 ordering traps) x 7 prefixes x 3 delimiters x 4 page sizes x store = 10752 items, visited by a seeded permutation, 8 per run (the quick tier consumes it completely). random: 3-14 names from a larger universe (unicode, deep nesting, dots, folder-placeholder names ending in the delimiter on the memory store), any prefix of any name or a miss, delimiter from {none, '/', '.', 'ab', '//'}, maxResults 1..n+1; the whole token chain is followed and compared with the listing model (completeness, no duplicates, bytewise order, collapsed prefixes once, page bound, items equal to metadata GETs); missing bucket -> 404, malformed token / maxResults -> 400; distinct = hash of (store, name set, parameters); non-trivial = a listing that needed at least 2 pages or produced a collapsed prefix",
		Real:   []string{"gcsemu handleGcsListBucket, makeBucketListResults (walk.go), memstore/filestore Walk, gcsutil page tokens"},
		Stub:   []string{"HTTP connections (recorder)"},
		Assume: []string{"only prefix, delimiter, maxResults and pageToken are exercised", "file-store worlds use names representable as files (no name that is a directory prefix of another)", "apart from the store configuration this property is a pure function of (names, parameters): the simulator contributes configuration and enumeration, the deciding power is the listing model"},
		Run:    runC11,
		Subspaces: func() map[string]int {
			return map[string]int{"c11.small": 64 * len(c11Prefixes) * len(c11Delims) * len(c11Max) * 2}
		},
	})
	expectedProbes["C11"] = []string{"c11.three_pages", "c11.collapsed_prefix", "c11.prefix_only_page", "c11.missing_bucket_404", "c11.bad_token_400", "c11.bad_maxresults_400", "c11.multi_char_delimiter", "c11.more_objects_than_default_page"}
}

type listEntry struct {
	name     string
	isPrefix bool
}

// listModel: the entries a complete listing must yield, in order.
func listModel(names []string, prefix, delim string) []listEntry {
	sorted := append([]string(nil), names...)
	sort.Strings(sorted)
	var out []listEntry
	seen := map[string]bool{}
	for _, n := range sorted {
		if !strings.HasPrefix(n, prefix) {
			continue
		}
		if delim != "" {
			rest := n[len(prefix):]
			if i := strings.Index(rest, delim); i >= 0 {
				p := prefix + rest[:i+len(delim)]
				if !seen[p] {
					seen[p] = true
					out = append(out, listEntry{p, true})
				}
				continue
			}
		}
		out = append(out, listEntry{n, false})
	}
	return out
}

// checkListing follows the token chain and compares with the model.
func checkListing(r *Run, w *GCSWorld, m *gModel, bucket string, names []string, prefix, delim string, maxResults int, witness func(kind string) string) bool {
	want := listModel(names, prefix, delim)
	q := url.Values{}
	if prefix != "" {
		q.Set("prefix", prefix)
	}
	if delim != "" {
		q.Set("delimiter", delim)
	}
	if maxResults > 0 {
		q.Set("maxResults", fmt.Sprint(maxResults))
	}
	desc := fmt.Sprintf("list %s names=%q prefix=%q delimiter=%q maxResults=%d (store %s)", bucket, names, prefix, delim, maxResults, w.Store)
	if len(names) > 60 {
		desc = fmt.Sprintf("list %s (%d names: %q ... %q) prefix=%q delimiter=%q maxResults=%d (store %s)", bucket, len(names), names[:3], names[len(names)-3:], prefix, delim, maxResults, w.Store)
	}
	fail := func(kind, f string, a ...interface{}) bool {
		wit := ""
		if witness != nil {
			wit = witness(kind)
		}
		r.Fail(kind, wit, "%s: %s", desc, fmt.Sprintf(f, a...))
		return false
	}
	var items []*gMeta
	var prefixes []string
	var pagesDesc []string
	pages := 0
	token := ""
	for {
		qq := mergeQ(q, url.Values{})
		if token != "" {
			qq.Set("pageToken", token)
		}
		resp, lp := w.ListPage(bucket, qq)
		if lp == nil {
			return fail("list-failed", "page %d: HTTP %d %s", pages, resp.Status, shortVal(string(resp.Body)))
		}
		pages++
		var pn []string
		for _, it := range lp.Items {
			pn = append(pn, it.Name)
		}
		pagesDesc = append(pagesDesc, fmt.Sprintf("%v+%v", pn, lp.Prefixes))
		if maxResults > 0 && len(lp.Items)+len(lp.Prefixes) > maxResults {
			return fail("page-too-large", "page %d holds %d entries: %v", pages, len(lp.Items)+len(lp.Prefixes), pagesDesc)
		}
		if len(lp.Items) == 0 && len(lp.Prefixes) > 0 {
			r.Probe("c11.prefix_only_page")
		}
		items = append(items, lp.Items...)
		prefixes = append(prefixes, lp.Prefixes...)
		if lp.Next == "" {
			break
		}
		if lp.Next == token {
			return fail("list-loop", "page %d returns the token it was called with: %v", pages, pagesDesc)
		}
		token = lp.Next
		if pages > len(names)+len(want)+3 {
			return fail("list-loop", "the token chain does not end after %d pages: %v", pages, pagesDesc)
		}
	}
	var wantItems, wantPrefixes []string
	for _, e := range want {
		if e.isPrefix {
			wantPrefixes = append(wantPrefixes, e.name)
		} else {
			wantItems = append(wantItems, e.name)
		}
	}
	var gotItems []string
	for _, it := range items {
		gotItems = append(gotItems, it.Name)
	}
	if strings.Join(gotItems, "\x00") != strings.Join(wantItems, "\x00") {
		kind := "list-items"
		if sortedEqual(gotItems, wantItems) {
			kind = "list-order"
		}
		return fail(kind, "items over %d pages %q, want %q; pages: %v", pages, gotItems, wantItems, pagesDesc)
	}
	if strings.Join(prefixes, "\x00") != strings.Join(wantPrefixes, "\x00") {
		kind := "list-prefixes"
		if sortedEqual(prefixes, wantPrefixes) {
			kind = "list-order"
		}
		return fail(kind, "prefixes over %d pages %q, want %q; pages: %v", pages, prefixes, wantPrefixes, pagesDesc)
	}
	for _, it := range items {
		o := m.obj(bucket, it.Name)
		if o == nil {
			return fail("list-items", "item %q is not in the model", it.Name)
		}
		if msg := metaMatches(it, o, bucket, it.Name); msg != "" {
			return fail("list-item-metadata", "item %q: %s", it.Name, msg)
		}
	}
	if pages >= 3 {
		r.Probe("c11.three_pages")
	}
	if pages >= 2 || len(wantPrefixes) > 0 {
		r.nontrivial = true
	}
	if len(wantPrefixes) > 0 {
		r.Probe("c11.collapsed_prefix")
	}
	if len(delim) > 1 {
		r.Probe("c11.multi_char_delimiter")
	}
	return true
}

func sortedEqual(a, b []string) bool {
	x, y := append([]string(nil), a...), append([]string(nil), b...)
	sort.Strings(x)
	sort.Strings(y)
	return strings.Join(x, "\x00") == strings.Join(y, "\x00")
}

var c11Big = []string{"a", "a.txt", "a/b", "a/c/d", "a0", "b", "b/x", "dir/y.z", "d/1", "d/2", "d/3", "e", "g/x", "h", "uni/é", "uni/☃.txt", "ab/ab/ab", "x//y", "a.b.c", "zz", "a/", "d/", "uni/", "a/c/", "v1/x", "v10/y", "v1-rc/z", "logs/2024", "logs/2024-01/x", c11Long1, c11Long2, c11Long3, c11Long4} // incl. "folder placeholder" objects (memory store only)
var c11BigFile = []string{"a.txt", "a/b", "a/c/d", "a0", "b/x", "dir/y.z", "d/1", "d/2", "d/3", "e", "g/x", "h", "uni/é", "uni/☃.txt", "ab/ab/ab", "a.b.c", "zz",
	"v1/x", "v10/y", "v1-rc/z", "logs/2024", "logs/2024-01/x", c11Long1, c11Long2, c11Long3, c11Long4}

// directory names that are string prefixes of each other (v1/, v10/, v1-rc/) and names longer than
// 127 bytes (a page cursor is the last name of the page)
// names of more than 1024 bytes sharing a directory path of 1003 bytes (components of 250 bytes, so
// that the file store can hold them): a page may end on a collapsed prefix longer than 1024 bytes
var c11LongDir = strings.Repeat("p", 250) + "/" + strings.Repeat("q", 250) + "/" + strings.Repeat("r", 250) + "/" + strings.Repeat("s", 250)
var c11Long3 = c11LongDir + "/" + strings.Repeat("a", 30) + "/x"
var c11Long4 = c11LongDir + "/" + strings.Repeat("b", 30)
var c11Long1 = "long/" + strings.Repeat("n", 130)
var c11Long2 = strings.Repeat("m", 128) + "/p"

// c11Witness recognises the recorded file-store finding: the walk visits directory a/ before
// a.<ext>, so names sharing a stem come out of order or are skipped by the early exits. It holds
// only if (1) the name set contains the trap (x+c+... and x+"/"+... with c < '/') and (2) the same
// listing on a memory-store twin is correct (so the defect is the file store's walk).
func c11Witness(r *Run, store string, names []string, kind, prefix, delim string, maxResults int) string {
	if store != "file" {
		return ""
	}
	if kind != "list-order" && kind != "list-items" && kind != "list-prefixes" {
		return ""
	}
	trap := false
	for _, a := range names {
		for _, b := range names {
			i := strings.IndexByte(b, '/')
			if i <= 0 || len(a) <= i || a[:i] != b[:i] {
				continue
			}
			if a[i] < '/' {
				trap = true
			}
		}
	}
	if !trap {
		return ""
	}
	// twin on the memory store
	sub := &Run{Prop: r.Prop, T: NewGenTape(1), Probes: map[string]int{}, Faults: map[string]int{}, Sub: map[string][]int{}}
	clk := NewClock(0, 1_700_000_000_000_000_000)
	tw := NewGCSWorld(sub, "mem", "", clk)
	tm := newGModel()
	tm.step(gOp{Kind: "CreateBucket", Bucket: "twin"}, execG(tw, gOp{Kind: "CreateBucket", Bucket: "twin"}))
	for i, n := range names {
		op := gOp{Kind: "Upload", Proto: "media", Up: upSpec{Bucket: "twin", Name: n, Content: []byte(fmt.Sprint(i)), ContentType: "text/plain"}}
		tm.step(op, execG(tw, op))
	}
	ok := checkListing(sub, tw, tm, "twin", names, prefix, delim, maxResults, nil)
	simClk = r.clkRestore
	if ok && sub.V == nil {
		return "listing.filestore.dirBeforeDot"
	}
	return ""
}

func runC11(r *Run) {
	clk := NewClock(0, 1_700_000_000_000_000_000)
	wallIncreasing(r, clk)
	store := []string{"mem", "file"}[r.Index%2]
	w := NewGCSWorld(r, store, "", clk)
	r.clkRestore = clk
	defer w.Destroy()
	m := newGModel()
	U, big := c11UMem, c11Big
	if store == "file" {
		U, big = c11UFile, c11BigFile
	}
	nb := 0
	mkBucket := func(names []string) (string, bool) {
		nb++
		b := fmt.Sprintf("lb%d", nb)
		if k, msg := m.step(gOp{Kind: "CreateBucket", Bucket: b}, execG(w, gOp{Kind: "CreateBucket", Bucket: b})); k != "" {
			r.Fail(k, "", "%s", msg)
			return b, false
		}
		for i, n := range names {
			op := gOp{Kind: "Upload", Proto: "media", Up: upSpec{Bucket: b, Name: n, Content: []byte(fmt.Sprint(i)), ContentType: "text/plain"}}
			if k, msg := m.step(op, execG(w, op)); k != "" {
				r.Fail(k, "", "%s", msg)
				return b, false
			}
		}
		return b, true
	}
	r.Mix(store)
	if r.Index == 10 || r.Index == 11 || (r.Tier == "thorough" && r.Index%5000 < 2) {
		// one run per store and batch: a bucket holding more objects than the default page
		// size (1000), flat names and 40 "directories", listed with and without maxResults
		dl := record(r.T.S("prog.0"), 8)
		var names []string
		nFlat := 1001 + dl.n(300)
		for i := 0; i < nFlat; i++ {
			names = append(names, fmt.Sprintf("k%05d", i*7))
		}
		for i := 0; i < 40; i++ {
			for j := 0; j < 1+i%4; j++ {
				names = append(names, fmt.Sprintf("p%02d/f%d", i, j))
			}
		}
		sort.Strings(names)
		bucket, ok := mkBucket(names)
		if !ok {
			return
		}
		r.Probe("c11.more_objects_than_default_page")
		for _, q := range []struct {
			prefix, delim string
			mr            int
		}{{"", "", 0}, {"", "/", 0}, {"k0", "", 0}, {"", "", 1000}, {"", "/", 999}, {"k", "", 400}, {"p", "/", 7}, {"", "", 1500}} {
			r.Mix(fmt.Sprintf("L%q.%q.%d", q.prefix, q.delim, q.mr))
			if !checkListing(r, w, m, bucket, names, q.prefix, q.delim, q.mr, nil) {
				return
			}
		}
		r.Sample = map[string]interface{}{"mode": "large-bucket", "store": store, "objects": len(names)}
		return
	}
	// part 1: the small universe, by permutation
	nSmall := 64 * len(c11Prefixes) * len(c11Delims) * len(c11Max)
	perm := newPerm(nSmall, r.Master+11)
	const perRun = 8
	var lastSub = -1
	var bucket string
	var names []string
	for k := 0; k < perRun && !r.Failed(); k++ {
		it := perm.at((r.Index/2)*perRun + k)
		r.Visit("c11.small", it*2+r.Index%2)
		sub := it % 64
		rest := it / 64
		pi, rest := rest%len(c11Prefixes), rest/len(c11Prefixes)
		di, mi := rest%len(c11Delims), rest/len(c11Delims)
		if sub != lastSub {
			names = nil
			for b := 0; b < 6; b++ {
				if sub&(1<<uint(b)) != 0 {
					names = append(names, U[b])
				}
			}
			var ok bool
			if bucket, ok = mkBucket(names); !ok {
				return
			}
			lastSub = sub
		}
		r.Mix(fmt.Sprintf("s%d.%d.%d.%d", sub, pi, di, mi))
		nm := names
		if !checkListing(r, w, m, bucket, nm, c11Prefixes[pi], c11Delims[di], c11Max[mi], func(kind string) string {
			return c11Witness(r, store, nm, kind, c11Prefixes[pi], c11Delims[di], c11Max[mi])
		}) {
			return
		}
	}
	// part 2: random larger sets
	d := record(r.T.S("prog.0"), 64)
	n := 3 + d.n(12)
	set := map[string]bool{}
	for i := 0; i < 14; i++ {
		x := big[d.n(len(big))]
		if i < n {
			set[x] = true
		}
	}
	names = sortedKeys(set)
	var ok bool
	if bucket, ok = mkBucket(names); !ok {
		return
	}
	if d.n(3) == 0 {
		// an upload that the file store cannot hold (a path component of 300 bytes): where it
		// fails it must leave nothing behind that a listing shows; where it succeeds (memory
		// store) it is an object like any other
		ghost := "ghost/" + strings.Repeat("g", 300)
		op := gOp{Kind: "Upload", Proto: "media", Up: upSpec{Bucket: bucket, Name: ghost, Content: []byte("g"), ContentType: "text/plain"}}
		resp := execG(w, op)
		if ok2xx(resp.Status) {
			if k, msg := m.step(op, resp); k != "" {
				r.Fail(k, "", "%s", msg)
				return
			}
			names = append(names, ghost)
			sort.Strings(names)
		} else {
			r.Probe("c11.failed_upload_of_unrepresentable_name")
		}
	}
	for q := 0; q < 5 && !r.Failed(); q++ {
		dd := record(r.T.S("prog.0"), 12)
		src := names[dd.n(len(names))]
		prefix := src[:dd.n(len(src)+1)]
		var slashes []int
		for i := 0; i < len(src); i++ {
			if src[i] == '/' {
				slashes = append(slashes, i)
			}
		}
		switch dd.w(6, 1, 1, 1, 3) {
		case 1:
			prefix = "nomatch"
		case 2:
			prefix = "nosuch/" // a "directory" no object lives in
		case 3:
			if len(slashes) > 0 {
				prefix = src[:slashes[0]+1] + "nosuch/x" // ... below a directory that exists
			}
		case 4:
			if len(slashes) > 0 {
				prefix = src[:slashes[dd.n(len(slashes))]+1] // exactly a directory of the name
			}
		}
		delim := []string{"/", "", ".", "ab", "//"}[dd.w(5, 3, 2, 1, 1)]
		mr := 1 + dd.n(len(names)+1)
		if dd.n(5) == 0 {
			mr = 0 // default page size
		}
		r.Mix(fmt.Sprintf("r%q.%q.%d", prefix, delim, mr))
		nm := names
		if !checkListing(r, w, m, bucket, nm, prefix, delim, mr, func(kind string) string { return c11Witness(r, store, nm, kind, prefix, delim, mr) }) {
			return
		}
	}
	// error cases
	if resp, _ := w.ListPage("no-such-bucket", url.Values{}); resp.Status != 404 {
		r.Fail("missing-bucket", "", "listing a missing bucket: HTTP %d, want 404", resp.Status)
		return
	}
	r.Probe("c11.missing_bucket_404")
	for _, tok := range []string{"!!!not-base64!!!", "AAAA", "%%%"} {
		if resp, _ := w.ListPage(bucket, url.Values{"pageToken": {tok}}); resp.Status != 400 {
			r.Fail("bad-token", "", "malformed pageToken %q: HTTP %d, want 400", tok, resp.Status)
			return
		}
	}
	r.Probe("c11.bad_token_400")
	for _, mr := range []string{"0", "-1", "x", "1.5"} {
		if resp, _ := w.ListPage(bucket, url.Values{"maxResults": {mr}}); resp.Status != 400 {
			r.Fail("bad-maxresults", "", "maxResults=%s: HTTP %d, want 400", mr, resp.Status)
			return
		}
	}
	r.Probe("c11.bad_maxresults_400")
	r.Sample = map[string]interface{}{"store": store, "random_names": names}
}
