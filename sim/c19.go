package main

import (
	"context"
	"fmt"

	"github.com/fullstorydev/emulators/storage/gcsutil"
)

// C19: gcsutil.TransientLockMap under seeded schedules with cancellation events.

func init() {
	register(&PropDef{
		ID: "C19", Level: "exploration", Quick: 400000, Thorough: 3000000, QuickCap: 100,
		Rule: "each run = 2-4 tasks x 1-3 rounds over 1-2 keys calling Lock/Unlock/Run on the real TransientLockMap, with 0-2 context-cancel events (as separate tasks or becoming visible inside one of the Err calls of the context), Run callbacks that panic, and optional bad-unlock calls (of unknown keys and of real keys nobody holds), interleaved at every internal step by the seeded scheduler; one run in eight is the racing-unlocks sub-workload: 2-3 callers Lock/Unlock one key while 1-2 callers that never locked call Unlock on it (legal while the key is held - the map keeps no owner -, a panic that changes nothing otherwise), the history checked with porcupine against an ownerless-lock model, then no entry may remain and the key must be lockable at once; distinct = distinct hash of the (task, scheduling point) trace; non-trivial = at least one preemption or one cancel event",
		Real: []string{"gcsutil.TransientLockMap (Lock, Unlock, Run, returnLockObj)", "gcsutil.countedLock"},
		Stub: []string{"Go channel blocking in countedLock.Lock is replaced by a wait-until in front of it (the simulator decides the order of cancel and unlock events, so the two-ready-cases select is never reached with both ready)"},
		Assume: []string{"seeded search, not exhaustive enumeration: the number of distinct interleavings reached is reported",
			"when a cancelled waiter and a free slot coincide the real runtime may let either case of the select win; the simulation always takes the cancellation (the property allows both)"},
		Run: runC19,
	})
	expectedProbes["C19"] = []string{"c19.waited", "c19.cancel_while_queued", "c19.lock_false", "c19.bad_unlock_panicked", "c19.two_keys_overlap", "c19.foreign_unlock_released_a_held_key", "c19.foreign_unlock_panicked", "c19.racing_unlocks_linearizable"}
}

// c19ManyKeys: "independent keys never block each other" for a large number of keys held at
// once: one caller takes a few hundred thousand distinct keys and releases them again. However the
// map identifies keys internally, none of these acquisitions may wait.
func c19ManyKeys(r *Run) {
	lm := gcsutil.NewTransientLockMap()
	n := 300000
	if r.Tier == "thorough" {
		n = 1200000
	}
	// pseudo-random names: however the map digests a key, the digests of these behave like random numbers
	key := func(i int) string { return fmt.Sprintf("bucket/%016x", splitmix(uint64(i))) }
	ctx := context.Background()
	for i := 0; i < n; i++ {
		ok := false
		func() {
			defer func() {
				if x := recover(); x != nil {
					if _, ll := x.(leakedLock); ll {
						r.Fail("blocked-on-free-key", "", "Lock(%q) would wait although this caller only holds %d other, distinct keys", key(i), i)
						return
					}
					panic(x)
				}
			}()
			ok = lm.Lock(ctx, key(i))
		}()
		if r.Failed() {
			return
		}
		if !ok {
			r.Fail("false-without-cancel", "", "Lock(%q) returned false with a background context", key(i))
			return
		}
	}
	if got := lm.VerifLen(); got != n {
		r.Fail("leak", "", "%d distinct keys are held but the map has %d entries", n, got)
		return
	}
	for i := 0; i < n; i++ {
		lm.Unlock(key(i))
	}
	if got := lm.VerifLen(); got != 0 {
		r.Fail("leak", "", "lock map retains %d entries after all %d keys were released", got, n)
		return
	}
	r.Probe("c19.many_distinct_keys_held")
	r.Mix("many-keys")
	r.Sample = map[string]interface{}{"mode": "many-keys", "keys": n}
}

func runC19(r *Run) {
	if r.Index == 5 {
		c19ManyKeys(r)
		return
	}
	cfg := r.T.S("cfg")
	if cfg.Intn(8) == 7 {
		c19RacingUnlocks(r, cfg)
		return
	}
	nTasks := 2 + cfg.Intn(3)
	nKeys := 1 + cfg.Intn(2)
	rounds := 1 + cfg.Intn(3)
	nCancel := cfg.Intn(3)
	badUnlock := cfg.Intn(4) == 3
	if r.Tier == "quick" && r.Index%7 == 0 {
		// the configuration the property names: 3 goroutines x 2 keys x 2 rounds with cancellation
		nTasks, nKeys, rounds, nCancel = 3, 2, 2, 1+cfg.Intn(2)
	}
	keys := []string{"k0", "k1"}[:nKeys]

	lm := gcsutil.NewTransientLockMap()
	s := r.NewSched()
	s.Budget = 5000

	acq := map[string]int{}       // tasks between "Lock returned true" and "Unlock called"
	unlocking := map[string]int{} // tasks inside Unlock
	inCrit := 0
	// A cancellable context is itself a seam: the code under test asks it (Err) at points of its
	// own choosing, and the cancellation may become visible exactly there. Per context the cancel
	// is either a separate task (lands at a scheduling point) or fires inside one of the Err calls
	// (drawn on the fault stream), which reaches windows without a scheduling point in them.
	ctxs := make([]*simCtx, nCancel)
	fs := r.T.S("fault")
	for i := range ctxs {
		c, cancel := context.WithCancel(context.Background())
		ctxs[i] = &simCtx{Context: c, cancel: cancel}
		if cfg.Intn(3) == 2 {
			i := i
			ctxs[i].atErr = func() bool {
				if fs.Intn(6) != 5 {
					return false
				}
				r.Fault("ctx_cancel_at_err")
				r.Probe("c19.cancel_inside_err_call")
				r.nontrivial = true
				s.mix(fmt.Sprintf("cancel%d@err;", i))
				return true
			}
		}
	}
	waitingOn := map[int]string{} // task id -> key it is inside Lock for
	waitingCtx := map[int]int{}   // task id -> context index it waits with
	queued := map[int]bool{}      // task id -> has been parked on the key lock
	s.OnBlock = func(point string) {
		id := s.CurID()
		k := waitingOn[id]
		r.Probe("c19.waited")
		queued[id] = true
		if k != "" && acq[k]+unlocking[k] == 0 {
			r.Fail("blocked-on-free-key", "", "task %s is blocked at %s on key %s although no caller holds it", s.CurTask(), point, k)
		}
		for _, o := range keys {
			if o != k && acq[o] > 0 {
				r.Probe("c19.two_keys_overlap")
			}
		}
	}
	prog := func(ti int) func() {
		ps := r.T.S(fmt.Sprintf("prog.%d", ti))
		return func() {
			id := s.CurID()
			for round := 0; round < rounds; round++ {
				// fixed-width record: key, ctx choice, api choice, bad-unlock choice
				key := keys[ps.Intn(nKeys)]
				ci := ps.Intn(nCancel + 1)
				useRun := ps.Intn(2) == 1
				bad := ps.Intn(4) == 3
				cbPanics := ps.Intn(5) == 4
				var ctx context.Context = context.Background()
				ctxDone := func() bool { return false }
				if ci > 0 {
					ctx = ctxs[ci-1]
					ctxDone = ctxs[ci-1].done
				}
				bad2 := ps.Intn(4) == 3
				bad2Key := keys[ps.Intn(nKeys)]
				body := func() {
					acq[key]++
					inCrit++
					if acq[key] != 1 {
						r.Fail("mutual-exclusion", "", "key %s has %d holders (task %s just acquired it)", key, acq[key], s.CurTask())
					}
					s.Yield("critical")
					if acq[key] != 1 {
						r.Fail("mutual-exclusion", "", "key %s has %d holders inside the critical section of %s", key, acq[key], s.CurTask())
					}
					acq[key]--
					inCrit--
					unlocking[key]++
				}
				r.Hist(map[string]interface{}{"task": ti, "op": "lock", "key": key, "ctx": ci, "run": useRun, "step": s.Steps})
				waitingOn[id] = key
				waitingCtx[id] = ci
				queued[id] = false
				if useRun {
					ran := false
					var err error
					func() {
						// a callback may panic (net/http recovers a crashing handler above Run):
						// the key must be released all the same
						defer func() {
							if x := recover(); x != nil {
								if _, mine := x.(c19CallbackPanic); !mine {
									panic(x)
								}
								r.Probe("c19.callback_panicked")
							}
						}()
						err = lm.Run(ctx, key, func(context.Context) error {
							delete(waitingOn, id)
							ran = true
							body()
							if cbPanics {
								panic(c19CallbackPanic{})
							}
							return nil
						})
					}()
					delete(waitingOn, id)
					if ran {
						unlocking[key]--
						if err != nil {
							r.Fail("run-error", "", "Run executed the callback but returned %v", err)
						}
					} else {
						r.Probe("c19.lock_false")
						if err == nil {
							r.Fail("run-no-callback", "", "Run returned nil without running the callback")
						}
						if !ctxDone() {
							r.Fail("false-without-cancel", "", "Run gave up on key %s although its context is not done", key)
						}
					}
				} else {
					ok := lm.Lock(ctx, key)
					delete(waitingOn, id)
					if ok {
						body()
						lm.Unlock(key)
						unlocking[key]--
					} else {
						r.Probe("c19.lock_false")
						if !ctxDone() {
							r.Fail("false-without-cancel", "", "Lock returned false on key %s although its context is not done", key)
						}
					}
				}
				r.Hist(map[string]interface{}{"task": ti, "op": "done", "key": key, "step": s.Steps})
				if bad && badUnlock {
					panicked := false
					func() {
						defer func() {
							if x := recover(); x != nil {
								if _, ab := x.(abortRun); ab {
									panic(x)
								}
								panicked = true
							}
						}()
						lm.Unlock(fmt.Sprintf("unheld-%d", ti))
					}()
					if panicked {
						r.Probe("c19.bad_unlock_panicked")
					} else {
						r.Fail("bad-unlock-no-panic", "", "Unlock of a key nobody holds returned normally")
					}
				}
				if bad2 && badUnlock && acq[bad2Key]+unlocking[bad2Key] == 0 {
					// Unlock of a real key that nobody holds right now (others may be anywhere
					// inside Lock short of the acquisition, or giving up): must panic and must
					// leave the map usable. Run without preemption so that "not held" stays true.
					panicked := false
					s.Atomic(func() {
						defer func() {
							if x := recover(); x != nil {
								if _, ab := x.(abortRun); ab {
									panic(x)
								}
								panicked = true
							}
						}()
						lm.Unlock(bad2Key)
					})
					s.mix("badunlock:" + bad2Key + ";")
					if panicked {
						r.Probe("c19.bad_unlock_real_key_panicked")
						for id, k := range waitingOn {
							if k == bad2Key && id != s.CurID() {
								r.Probe("c19.bad_unlock_while_other_in_lock")
							}
						}
					} else {
						r.Fail("bad-unlock-no-panic", "", "Unlock of key %s, which no caller holds, returned normally", bad2Key)
					}
				}
				if r.Failed() {
					return
				}
			}
		}
	}
	for i := 0; i < nTasks; i++ {
		s.Go(fmt.Sprintf("t%d", i), prog(i))
	}
	for i := 0; i < nCancel; i++ {
		i := i
		if ctxs[i].atErr != nil {
			continue
		}
		s.Go(fmt.Sprintf("cancel%d", i), func() {
			// the cancel lands wherever the scheduler runs this task
			hit := false
			for id := range waitingOn {
				if waitingCtx[id] == i+1 && queued[id] {
					hit = true
				}
			}
			if hit {
				r.Probe("c19.cancel_while_queued")
			}
			r.Fault("ctx_cancel")
			r.nontrivial = true
			ctxs[i].cancel()
		})
	}
	v := s.Run()
	r.FinishSched(s, v)
	for _, c := range ctxs {
		c.cancel()
	}
	r.Sample = map[string]interface{}{"tasks": nTasks, "keys": nKeys, "rounds": rounds, "cancels": nCancel, "bad_unlock": badUnlock, "steps": s.Steps, "preemptions": s.Pre, "policy": s.policy}
	if r.Failed() {
		return
	}
	if n := lm.VerifLen(); n != 0 {
		r.Fail("leak", "", "lock map retains %d entries although no caller holds or awaits a lock", n)
	}
	if inCrit != 0 {
		r.Fail("harness", "", "inCrit=%d", inCrit)
	}
}

type c19CallbackPanic struct{}

// simCtx is a cancellable context whose cancellation can become visible inside an Err call.
type simCtx struct {
	context.Context
	cancel context.CancelFunc
	atErr  func() bool // nil: cancelled by a separate task
}

func (c *simCtx) Err() error {
	if c.atErr != nil && c.Context.Err() == nil && c.atErr() {
		c.cancel()
	}
	return c.Context.Err()
}

func (c *simCtx) done() bool { return c.Context.Err() != nil }
