package main

import (
	"io"
	"os"
	"path/filepath"

	btapb "cloud.google.com/go/bigtable/admin/apiv2/adminpb"
	btpb "cloud.google.com/go/bigtable/apiv2/bigtablepb"
)

type btapbGc = btapb.GcRule
type mutList = []*btpb.Mutation

func mutKind(m *btpb.Mutation) string {
	switch x := m.GetMutation().(type) {
	case *btpb.Mutation_SetCell_:
		if x.SetCell.TimestampMicros == -1 {
			return "s"
		}
		return "S"
	case *btpb.Mutation_DeleteFromColumn_:
		if x.DeleteFromColumn.TimeRange != nil {
			return "c"
		}
		return "C"
	case *btpb.Mutation_DeleteFromFamily_:
		return "F"
	case *btpb.Mutation_DeleteFromRow_:
		return "R"
	}
	return "0"
}

// copyTree copies a directory byte for byte (the crash image of a killed process: every
// completed system call survives, nothing else does).
func copyTree(src, dst string) error {
	return filepath.Walk(src, func(p string, info os.FileInfo, err error) error {
		if err != nil {
			if os.IsNotExist(err) {
				return nil
			}
			return err
		}
		rel, _ := filepath.Rel(src, p)
		target := filepath.Join(dst, rel)
		if info.IsDir() {
			return os.MkdirAll(target, 0777)
		}
		in, err := os.Open(p)
		if err != nil {
			if os.IsNotExist(err) {
				return nil
			}
			return err
		}
		defer in.Close()
		out, err := os.Create(target)
		if err != nil {
			return err
		}
		if _, err := io.Copy(out, in); err != nil {
			out.Close()
			return err
		}
		if err := out.Close(); err != nil {
			return err
		}
		return os.Chtimes(target, info.ModTime(), info.ModTime())
	})
}

func filterString(f *btpb.RowFilter) string {
	if f == nil {
		return "nil"
	}
	return compactProto(f)
}
