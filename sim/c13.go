package main

import (
	"math"

	btpb "cloud.google.com/go/bigtable/apiv2/bigtablepb"
)

// C13: ReadModifyWriteRow semantics under any clock value and prior row state.

func init() {
	register(&PropDef{
		ID: "C13", Level: "exploration", Quick: 18000, Thorough: 600000, QuickCap: 100,
		Rule:   "each run = one engine, a drawn server-clock trajectory (unaligned, jumping, stepping back), 1-30 requests mixing ReadModifyWriteRow rule lists (1-4 rules, repeated columns, append/increment, extreme amounts, unknown families, unset rules, empty lists) with SetCell/Delete requests that create prior states (cells in the future of the clock, non-8-byte and empty values, several versions); response cells and the row read back are compared with the model after every request; distinct = hash of (engine, op shapes); non-trivial = at least 2 requests",
		Real:   []string{"bttest ReadModifyWriteRow, MutateRow, ReadRows", "btree / goleveldb-mem / goleveldb-disk engines"},
		Stub:   []string{"gRPC transport (direct calls)", "server clock (simulator-owned)"},
		Assume: []string{"an empty rule list may fail or be a no-op that stores nothing", "error codes are not compared"},
		Run:    runC13,
	})
	expectedProbes["C13"] = []string{"c13.future_cell", "c13.increment_bad_len", "c13.repeated_column", "c13.wrap", "c13.unknown_family", "c13.clock_back"}
}

var rmwAmounts = []int64{1, -1, 0, math.MaxInt64, math.MinInt64, 255, 1 << 32}

func genRMWRules(d *draws, g *btGen, r *Run) []*btpb.ReadModifyWriteRule {
	k := d.w(10, 6, 3, 2, 1)
	n := k + 1
	if k == 4 {
		n = 0
	}
	var rules []*btpb.ReadModifyWriteRule
	seen := map[string]bool{}
	for i := 0; i < 4; i++ {
		sub := d.sub(6)
		fam := g.fam(sub)
		q := btQuals[sub.w(6, 2, 1, 1, 1, 2)]
		rule := &btpb.ReadModifyWriteRule{FamilyName: fam, ColumnQualifier: []byte(q)}
		switch sub.w(5, 5, 1) {
		case 0:
			rule.Rule = &btpb.ReadModifyWriteRule_IncrementAmount{IncrementAmount: rmwAmounts[sub.n(len(rmwAmounts))]}
		case 1:
			g.seq++
			app := []string{"x", "", "\x00\xff", "12345678"}[sub.n(4)]
			rule.Rule = &btpb.ReadModifyWriteRule_AppendValue{AppendValue: []byte(app)}
		}
		if i < n {
			if seen[fam+"/"+q] {
				r.Probe("c13.repeated_column")
			}
			seen[fam+"/"+q] = true
			if fam == g.unknown {
				r.Probe("c13.unknown_family")
			}
			rules = append(rules, rule)
		}
	}
	return rules
}

func runC13(r *Run) {
	cfg := r.T.S("cfg")
	engine := pickEngine(r, cfg)
	nOps := 1 + cfg.Intn(30)
	clk := NewClock(1_700_000_000_000_777+int64(cfg.Intn(5000)), 1_700_000_000_000_000_000)
	if cfg.Intn(3) == 0 {
		// the server clock moves on by 1-3 ms every time it is looked at: one request = one
		// instant (the first look), however many rules it carries
		clk.ServerTick = int64(1+cfg.Intn(3)) * 1000
		r.Probe("c13.clock_moves_between_reads")
	}
	gen := &btGen{fams: []string{"f1", "f12"}, unknown: "nofam"}
	const tbl = "projects/p/instances/i/tables/t"
	rows := []string{"r", "r\x00", "s"}
	lastClock := clk.ServerUs
	spec := seqSpec{
		Engine: engine, NOps: nOps, FullEvery: 5, AllowBack: true, Restarts: cfg.Intn(3) == 2,
		Tables: []btOp{{Kind: "CreateTable", Parent: "projects/p/instances/i", TableID: "t", Fams: map[string]*btapbGc{"f1": nil, "f12": nil}}},
		Gen: func(d *draws, m *btModel, i int) btOp {
			if clk.ServerUs < lastClock {
				r.Probe("c13.clock_back")
			}
			lastClock = clk.ServerUs
			key := rows[d.w(5, 2, 2)]
			switch d.w(6, 3, 1) {
			case 0:
				return btOp{Kind: "RMW", Table: tbl, Key: key, Rules: genRMWRules(d, gen, r)}
			case 1:
				// prior state: a cell relative to the clock (past, same millisecond, future), 8-byte or not
				sub := d.sub(8)
				nowMs := clk.ServerUs - clk.ServerUs%1000
				ts := []int64{1000, nowMs, nowMs + 1000, nowMs + 3600_000_000, nowMs - 1000, maxValidTs, 0}[sub.n(7)]
				val := [][]byte{{0, 0, 0, 0, 0, 0, 0, 5}, {}, []byte("abc"), {0xff, 0xff, 0xff, 0xff, 0xff, 0xff, 0xff, 0xff}, {0x7f, 0xff, 0xff, 0xff, 0xff, 0xff, 0xff, 0xff}, []byte("123456789")}[sub.n(6)]
				if ts > nowMs {
					r.Probe("c13.future_cell")
				}
				fam := []string{"f1", "f12"}[sub.w(3, 1)]
				q := btQuals[sub.w(6, 2, 1, 1, 1, 2)]
				return btOp{Kind: "MutateRow", Table: tbl, Key: key, Muts: mutList{{Mutation: &btpb.Mutation_SetCell_{SetCell: &btpb.Mutation_SetCell{FamilyName: fam, ColumnQualifier: []byte(q), TimestampMicros: ts, Value: val}}}}}
			default:
				return btOp{Kind: "MutateRow", Table: tbl, Key: key, Muts: gen.mutations(d, 2, false)}
			}
		},
		AfterOp: func(op btOp, resp btResp, before, after *btModel) {
			if op.Kind != "RMW" {
				return
			}
			t := before.Tables[op.Table]
			_, cells, err, _ := t.rmw(t.row(op.Key), op.Rules, clk.ServerUs)
			if err != nil {
				for _, ru := range op.Rules {
					if _, ok := ru.Rule.(*btpb.ReadModifyWriteRule_IncrementAmount); ok && ru.FamilyName != "nofam" {
						r.Probe("c13.increment_bad_len")
						break
					}
				}
			}
			for _, c := range cells {
				if len(c.Val) == 8 && (c.Val == "\x80\x00\x00\x00\x00\x00\x00\x00" || c.Val == "\x7f\xff\xff\xff\xff\xff\xff\xfe") {
					r.Probe("c13.wrap")
				}
			}
		},
	}
	res := runBTSeq(r, spec, clk)
	r.Sample = map[string]interface{}{"engine": engine, "requests": len(res.Shapes), "first_ops": firstN(res.Shapes, 8), "clock_end": clk.ServerUs}
}
