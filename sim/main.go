package main

import (
	"encoding/json"
	"flag"
	"fmt"
	"io"
	"log"
	"os"
	"os/exec"
	"path/filepath"
	"runtime"
	"runtime/pprof"
	"sort"
	"strconv"
	"strings"
	"sync"
	"sync/atomic"
	"time"
)

// verifRoot is /verif, or the snapshot bin/check was started from (vp run).
var verifRoot = func() string {
	if v := os.Getenv("VERIF_ROOT"); v != "" {
		return v
	}
	return "/verif"
}()

func main() {
	if len(os.Args) < 2 {
		usage()
	}
	installHooks()
	log.SetOutput(io.Discard) // the repository logs through the standard logger; keep it out of reports
	switch os.Args[1] {
	case "check":
		if len(os.Args) < 4 {
			usage()
		}
		os.Exit(cmdCheck(os.Args[2], os.Args[3]))
	case "worker":
		os.Exit(cmdWorker(os.Args[2:]))
	case "shrink":
		os.Exit(cmdShrink(os.Args[2:]))
	case "replay":
		if len(os.Args) < 3 {
			usage()
		}
		startWatchdog()
		os.Exit(cmdReplay(os.Args[2], true))
	case "selftest":
		os.Exit(cmdSelftest(os.Args[2:]))
	case "racework":
		os.Exit(cmdRaceWork(os.Args[2:]))
	case "one":
		os.Exit(cmdOne(os.Args[2:]))
	case "list":
		for _, id := range propIDs() {
			fmt.Println(id)
		}
	default:
		usage()
	}
}

func usage() {
	fmt.Fprintln(os.Stderr, "usage: simcheck check <ID> quick|thorough | replay <file> | selftest [ID...] | one -prop ID -index N [-seed S] | list")
	os.Exit(2)
}

func masterSeed() uint64 {
	if v := os.Getenv("VERIF_SEED"); v != "" {
		if n, err := strconv.ParseInt(v, 10, 64); err == nil {
			return uint64(n)
		}
		if n, err := strconv.ParseUint(v, 10, 64); err == nil {
			return n
		}
	}
	return 1
}

func numWorkers() int {
	if v := os.Getenv("VERIF_WORKERS"); v != "" {
		if n, err := strconv.Atoi(v); err == nil && n > 0 {
			return n
		}
	}
	n := runtime.NumCPU() / 2
	if n < 1 {
		n = 1
	}
	if n > 8 {
		n = 8
	}
	return n
}

func runSeed(master uint64, prop string, index int) uint64 {
	return splitmix(master ^ hashString(prop) ^ (uint64(index) * 0x9e3779b97f4a7c15))
}

// ---------------------------------------------------------------------------------------------
// worker

type FoundViolation struct {
	Index int              `json:"index"`
	Seed  uint64           `json:"run_seed"`
	V     Violation        `json:"violation"`
	Tape  map[string][]int `json:"streams"`
}

type WorkerResult struct {
	Runs        int               `json:"runs"`
	Next        int               `json:"next"`
	Hashes      []uint64          `json:"hashes"`
	AllHashes   int               `json:"all_hashes"`
	Probes      map[string]int    `json:"probes"`
	Faults      map[string]int    `json:"faults"`
	Steps       int64             `json:"steps"`
	Pre         int64             `json:"pre"`
	SimServerUs int64             `json:"sim_server_us"`
	SimWallNs   int64             `json:"sim_wall_ns"`
	Samples     []interface{}     `json:"samples"`
	Violations  []FoundViolation  `json:"violations"`
	Sub         map[string][]int  `json:"sub"`
	Extra       map[string]int    `json:"extra"`
	InfraErr    string            `json:"infra_err,omitempty"`
	RunHashes   map[string]string `json:"run_hashes,omitempty"` // selftest: index -> hash
	TimedOut    bool              `json:"timed_out"`
}

func newRun(p *PropDef, tier string, master uint64, index int, keep bool) *Run {
	return &Run{Prop: p.ID, Tier: tier, Index: index, Master: master, T: NewGenTape(runSeed(master, p.ID, index)), Keep: keep}
}

func cmdWorker(args []string) int {
	fs := flag.NewFlagSet("worker", flag.ExitOnError)
	prop := fs.String("prop", "", "")
	tier := fs.String("tier", "quick", "")
	seed := fs.Uint64("seed", 1, "")
	from := fs.Int("from", 0, "")
	to := fs.Int("to", 0, "")
	step := fs.Int("step", 1, "")
	max := fs.Int("max", 1<<30, "")
	out := fs.String("out", "", "")
	deadline := fs.Int64("deadline", 0, "")
	hashes := fs.Bool("hashes", false, "record per-run hashes (selftest)")
	fs.Parse(args)
	p := props[*prop]
	if p == nil {
		fmt.Fprintln(os.Stderr, "unknown property", *prop)
		return 2
	}
	res := &WorkerResult{Probes: map[string]int{}, Faults: map[string]int{}, Sub: map[string][]int{}, Extra: map[string]int{}}
	startWatchdog()
	if *hashes {
		res.RunHashes = map[string]string{}
	}
	seen := map[uint64]bool{}
	all := map[uint64]bool{}
	classes := map[string]bool{}
	i := *from
	for ; i < *to && res.Runs < *max; i += *step {
		if *deadline > 0 && time.Now().Unix() >= *deadline {
			res.TimedOut = true
			break
		}
		_ = os.WriteFile(*out+".cur", []byte(strconv.Itoa(i)), 0666)
		atomic.AddInt64(&progressCounter, 1)
		r := newRun(p, *tier, *seed, i, res.Runs < 2 && i < 4**step)
		err := execute(p, r)
		if err != nil {
			res.InfraErr = fmt.Sprintf("run index %d: %v", i, err)
			break
		}
		res.Runs++
		for k, v := range r.Probes {
			res.Probes[k] += v
		}
		for k, v := range r.Faults {
			res.Faults[k] += v
		}
		for k, v := range r.Sub {
			res.Sub[k] = append(res.Sub[k], v...)
		}
		res.Steps += int64(r.Steps)
		res.Pre += int64(r.Pre)
		res.SimServerUs += r.SimServerUs
		res.SimWallNs += r.SimWallNs
		all[r.hash] = true
		if r.nontrivial {
			seen[r.hash] = true
		}
		if *hashes {
			res.RunHashes[strconv.Itoa(i)] = fmt.Sprintf("%016x", r.hash)
		}
		if r.Sample != nil && len(res.Samples) < 2 {
			res.Samples = append(res.Samples, r.Sample)
		}
		if r.V != nil {
			c := r.V.Class()
			if !classes[c] && len(res.Violations) < 6 {
				classes[c] = true
				res.Violations = append(res.Violations, FoundViolation{Index: i, Seed: r.T.Seed, V: *r.V, Tape: r.T.Record()})
			}
		}
	}
	res.Next = i
	for h := range seen {
		res.Hashes = append(res.Hashes, h)
	}
	sort.Slice(res.Hashes, func(a, b int) bool { return res.Hashes[a] < res.Hashes[b] })
	res.AllHashes = len(all)
	b, _ := json.Marshal(res)
	if err := os.WriteFile(*out, b, 0666); err != nil {
		fmt.Fprintln(os.Stderr, err)
		return 2
	}
	os.Remove(*out + ".cur")
	return 0
}

// ---------------------------------------------------------------------------------------------
// driver

type KnownFinding struct {
	Status   string `json:"status"`
	Property string `json:"property"`
	ID       string `json:"id,omitempty"`
	Witness  string `json:"witness,omitempty"`
	Commit   string `json:"commit,omitempty"`
	What     string `json:"what"`
}

func loadKnown() []KnownFinding {
	var f struct {
		Entries []KnownFinding `json:"entries"`
	}
	b, err := os.ReadFile(filepath.Join(verifRoot, "known_findings.json"))
	if err != nil {
		return nil
	}
	if err := json.Unmarshal(b, &f); err != nil {
		fmt.Fprintln(os.Stderr, "known_findings.json:", err)
		os.Exit(2)
	}
	return f.Entries
}

func selfExe() string {
	e, err := os.Executable()
	if err != nil {
		return os.Args[0]
	}
	return e
}

func scratchRoot() string {
	base := os.Getenv("VERIF_SCRATCH")
	if base == "" {
		if st, err := os.Stat("/dev/shm"); err == nil && st.IsDir() {
			base = "/dev/shm"
		} else {
			base = os.TempDir()
		}
	}
	return base
}

func cmdCheck(id, tier string) int {
	p := props[id]
	if p == nil {
		fmt.Fprintln(os.Stderr, "unknown property", id)
		return 2
	}
	if tier != "quick" && tier != "thorough" {
		fmt.Fprintln(os.Stderr, "tier must be quick or thorough")
		return 2
	}
	start := time.Now()
	master := masterSeed()
	total := p.Quick
	capS := p.QuickCap
	if capS == 0 {
		capS = 120
	}
	if tier == "thorough" {
		total = p.Thorough
		capS = 1500
		if v := os.Getenv("VERIF_THOROUGH_CAP"); v != "" {
			if n, err := strconv.Atoi(v); err == nil {
				capS = n
			}
		}
	}
	if v := os.Getenv("VERIF_RUNS"); v != "" {
		if n, err := strconv.Atoi(v); err == nil {
			total = n
		}
	}
	W := numWorkers()
	if W > total {
		W = total
	}
	deadline := start.Add(time.Duration(capS) * time.Second).Unix()
	tmp, err := os.MkdirTemp(scratchRoot(), "verif-"+id+"-")
	if err != nil {
		fmt.Fprintln(os.Stderr, err)
		return 2
	}
	defer os.RemoveAll(tmp)
	perProc := p.PerProc
	if perProc == 0 {
		perProc = 4000
	}

	var mu sync.Mutex
	agg := &WorkerResult{Probes: map[string]int{}, Faults: map[string]int{}, Sub: map[string][]int{}, Extra: map[string]int{}}
	hashes := map[uint64]bool{}
	var infra []string
	var crashes []int
	var wg sync.WaitGroup
	for w := 0; w < W; w++ {
		wg.Add(1)
		go func(w int) {
			defer wg.Done()
			cur := w
			for n := 0; cur < total; n++ {
				out := filepath.Join(tmp, fmt.Sprintf("w%d-%d.json", w, n))
				cmd := exec.Command(selfExe(), "worker", "-prop", id, "-tier", tier, "-seed", strconv.FormatUint(master, 10),
					"-from", strconv.Itoa(cur), "-to", strconv.Itoa(total), "-step", strconv.Itoa(W), "-max", strconv.Itoa(perProc),
					"-out", out, "-deadline", strconv.FormatInt(deadline, 10))
				cmd.Env = append(os.Environ(), "VERIF_SCRATCH_DIR="+tmp)
				var stderr strings.Builder
				cmd.Stderr = &tailWriter{b: &stderr, max: 16000}
				cmd.Stdout = cmd.Stderr
				err := cmd.Run()
				b, rerr := os.ReadFile(out)
				if err != nil || rerr != nil {
					mu.Lock()
					idx := -1
					if cb, e := os.ReadFile(out + ".cur"); e == nil {
						idx, _ = strconv.Atoi(string(cb))
					}
					if idx >= 0 {
						crashes = append(crashes, idx)
					}
					infra = append(infra, fmt.Sprintf("worker %d died at run index %d: %v\n%s", w, idx, err, stderr.String()))
					mu.Unlock()
					return
				}
				var res WorkerResult
				if err := json.Unmarshal(b, &res); err != nil {
					mu.Lock()
					infra = append(infra, "bad worker output: "+err.Error())
					mu.Unlock()
					return
				}
				os.Remove(out)
				mu.Lock()
				mergeResult(agg, &res, hashes)
				if res.InfraErr != "" {
					infra = append(infra, res.InfraErr)
				}
				mu.Unlock()
				if res.InfraErr != "" || res.TimedOut {
					return
				}
				cur = res.Next
			}
		}(w)
	}
	wg.Wait()

	exit := 0
	var unknown, knownHit []string
	var vioOut []map[string]interface{}
	known := loadKnown()

	// worker process deaths: a death that reproduces in a fresh process is a violation
	sort.Ints(crashes)
	if len(crashes) > 0 {
		idx := crashes[0]
		rp := writeCrashReplay(p, tier, master, idx)
		how := replayCrashes(rp)
		// a hang that reproduces in a fresh process from the same seed is real blocking the
		// simulator cannot see; C20 ("never hangs") and C19 ("no deadlock, no wake-up lost",
		// "unlocking a key that is not held panics" - it does not wait) state that it must not happen
		if how == "crash" || (how == "hang" && (id == "C20" || id == "C19")) {
			fmt.Printf("VIOLATION property=%s replay=%s\n", id, rp)
			fmt.Printf("  class=%s/process-%s: the worker process died or hung (fatal runtime error / real blocking) at run index %d\n", id, how, idx)
			unknown = append(unknown, id+"/process-"+how)
			vioOut = append(vioOut, map[string]interface{}{"class": id + "/process-" + how, "replay": rp})
			infra = nil
			exit = 1
		}
	}

	// group by class, first occurrence (lowest index) wins
	sort.Slice(agg.Violations, func(a, b int) bool { return agg.Violations[a].Index < agg.Violations[b].Index })
	byClass := map[string]FoundViolation{}
	var order []string
	for _, fv := range agg.Violations {
		c := fv.V.Class()
		if _, ok := byClass[c]; !ok {
			byClass[c] = fv
			order = append(order, c)
		}
	}
	if len(order) > 5 {
		order = order[:5]
	}
	for _, c := range order {
		fv := byClass[c]
		budget := 2000
		if matchKnown(known, &fv.V) != nil {
			budget = 150 // a recorded finding: light minimisation only (the witness must still hold)
		}
		rp, min, err := shrinkAndConfirm(p, tier, master, fv, tmp, budget)
		if err != nil {
			infra = append(infra, fmt.Sprintf("violation %s (run index %d) did not replay: %v\noriginal message: %s", c, fv.Index, err, firstLines(fv.V.Msg, 40)))
			continue
		}
		kf := matchKnown(known, min)
		if kf != nil {
			fmt.Printf("KNOWN-FINDING: property=%s %s (witness %s; replay %s)\n", id, kf.What, kf.Witness, rp)
			knownHit = append(knownHit, kf.Witness)
			continue
		}
		fmt.Printf("VIOLATION property=%s replay=%s\n", id, rp)
		fmt.Printf("  class=%s run_index=%d\n  %s\n", min.Class(), fv.Index, firstLines(min.Msg, 12))
		unknown = append(unknown, min.Class())
		vioOut = append(vioOut, map[string]interface{}{"class": min.Class(), "replay": rp, "message": firstLines(min.Msg, 6)})
		exit = 1
	}
	if ok, msg := determinismSample(id, master, tmp); !ok {
		infra = append(infra, msg)
	}
	if id == "C20" || id == "C19" {
		rs := raceSupplement(id, tier, master, known)
		raceEvidence = rs.evidence
		for _, l := range rs.lines {
			fmt.Println(l)
		}
		knownHit = append(knownHit, rs.knownHit...)
		for _, v := range rs.violations {
			unknown = append(unknown, v["class"].(string))
			vioOut = append(vioOut, v)
			exit = 1
		}
		infra = append(infra, rs.infra...)
	}
	wall := time.Since(start).Seconds()
	writeEvidence(p, tier, master, agg, hashes, wall, total, W, vioOut, knownHit)
	for _, name := range expectedProbes[id] {
		if agg.Probes[name] == 0 {
			fmt.Printf("WARNING: probe %s never fired\n", name)
		}
	}
	if len(infra) > 0 {
		for _, s := range infra {
			fmt.Fprintln(os.Stderr, "INFRASTRUCTURE ERROR:", s)
		}
		if exit == 0 {
			return 2
		}
	}
	fmt.Printf("%s %s: runs=%d distinct_nontrivial=%d steps=%d preemptions=%d violations=%d known=%d wall=%.1fs\n",
		id, tier, agg.Runs, len(hashes), agg.Steps, agg.Pre, len(unknown), len(knownHit), wall)
	return exit
}

var expectedProbes = map[string][]string{}

// raceEvidence is the race supplement's section of the C20 evidence file (nil for other checks).
var raceEvidence map[string]interface{}

type tailWriter struct {
	b   *strings.Builder
	max int
}

func (t *tailWriter) Write(p []byte) (int, error) {
	t.b.Write(p)
	if t.b.Len() > 2*t.max {
		s := t.b.String()
		t.b.Reset()
		t.b.WriteString(s[len(s)-t.max:])
	}
	return len(p), nil
}

func firstLines(s string, n int) string {
	l := strings.Split(s, "\n")
	if len(l) > n {
		l = append(l[:n], "...")
	}
	return strings.Join(l, "\n  ")
}

func mergeResult(agg, res *WorkerResult, hashes map[uint64]bool) {
	agg.Runs += res.Runs
	for k, v := range res.Probes {
		agg.Probes[k] += v
	}
	for k, v := range res.Faults {
		agg.Faults[k] += v
	}
	for k, v := range res.Sub {
		agg.Sub[k] = append(agg.Sub[k], v...)
	}
	agg.Steps += res.Steps
	agg.Pre += res.Pre
	agg.SimServerUs += res.SimServerUs
	agg.SimWallNs += res.SimWallNs
	agg.AllHashes += res.AllHashes
	for _, h := range res.Hashes {
		hashes[h] = true
	}
	if len(agg.Samples) < 3 {
		agg.Samples = append(agg.Samples, res.Samples...)
	}
	agg.Violations = append(agg.Violations, res.Violations...)
	if res.TimedOut {
		agg.TimedOut = true
	}
}

func matchKnown(known []KnownFinding, v *Violation) *KnownFinding {
	if v.Witness == "" {
		return nil
	}
	for i := range known {
		k := &known[i]
		if k.Status == "open" && k.Property == v.Prop && k.Witness == v.Witness {
			return k
		}
	}
	return nil
}

// ---------------------------------------------------------------------------------------------
// replay files

type ReplayFile struct {
	Property     string           `json:"property"`
	Tier         string           `json:"tier"`
	MasterSeed   uint64           `json:"master_seed"`
	RunIndex     int              `json:"run_index"`
	RunSeed      uint64           `json:"run_seed"`
	Streams      map[string][]int `json:"streams"`
	Generate     bool             `json:"generate,omitempty"` // no tape: regenerate from the seed (process-crash replays)
	Violation    *Violation       `json:"violation"`
	Class        string           `json:"class"`
	Minimised    bool             `json:"minimised"`
	Reexecutions int              `json:"reexecutions"`
	Sample       interface{}      `json:"sample,omitempty"`
	Race         *RaceReplay      `json:"race,omitempty"` // race supplement (C20): re-run this seed on real goroutines
	Trace        []string         `json:"trace,omitempty"`
	History      []interface{}    `json:"history,omitempty"`
}

// outRoot is where evidence and replay files are written: /verif, or VERIF_OUT for sensitivity
// experiments on scratch copies of the repository (so they never touch the committed evidence).
func outRoot() string {
	if v := os.Getenv("VERIF_OUT"); v != "" {
		return v
	}
	return verifRoot
}

// RaceReplay identifies a report of the race supplement: the seed of the real-goroutine workload
// and the signature (first repository frame of each conflicting access) to look for.
type RaceReplay struct {
	Seed      int64    `json:"seed"`
	Seconds   int      `json:"seconds"`
	Signature string   `json:"signature"`
	Args      []string `json:"args,omitempty"`
}

func replayDir(id string) string {
	d := filepath.Join(outRoot(), "replays", id)
	os.MkdirAll(d, 0777)
	return d
}

func writeCrashReplay(p *PropDef, tier string, master uint64, idx int) string {
	rf := &ReplayFile{Property: p.ID, Tier: tier, MasterSeed: master, RunIndex: idx, RunSeed: runSeed(master, p.ID, idx), Generate: true,
		Class: p.ID + "/process-crash", Violation: &Violation{Prop: p.ID, Kind: "process-crash", Msg: "worker process died"}}
	path := filepath.Join(replayDir(p.ID), fmt.Sprintf("%s-%d-crash.json", p.ID, rf.RunSeed))
	b, _ := json.MarshalIndent(rf, "", " ")
	os.WriteFile(path, b, 0666)
	return path
}

// replayCrashes re-executes a seed-only replay in a fresh process: "crash" = the process died
// again, "hang" = the watchdog fired again, "" = it did not reproduce.
func replayCrashes(path string) string {
	cmd := exec.Command(selfExe(), "replay", path)
	cmd.Env = append(os.Environ(), "VERIF_WATCHDOG=30")
	err := cmd.Run()
	if ee, ok := err.(*exec.ExitError); ok {
		c := ee.ExitCode()
		if c == 4 {
			return "hang"
		}
		if c != 0 && c != 1 && c != 3 && c != 2 {
			return "crash"
		}
	}
	return ""
}

func runReplay(p *PropDef, rf *ReplayFile, keep bool) (*Run, error) {
	r := &Run{Prop: p.ID, Tier: rf.Tier, Index: rf.RunIndex, Master: rf.MasterSeed, Keep: keep}
	if rf.Generate {
		r.T = NewGenTape(rf.RunSeed)
	} else {
		r.T = NewReplayTape(rf.RunSeed, rf.Streams)
	}
	err := execute(p, r)
	return r, err
}

// cmdReplay re-executes a replay file. Exit 1 = the recorded violation class was reproduced,
// 0 = no violation, 3 = a different violation, 2 = infrastructure error.
func cmdReplay(path string, verbose bool) int {
	b, err := os.ReadFile(path)
	if err != nil {
		fmt.Fprintln(os.Stderr, err)
		return 2
	}
	var rf ReplayFile
	if err := json.Unmarshal(b, &rf); err != nil {
		fmt.Fprintln(os.Stderr, err)
		return 2
	}
	p := props[rf.Property]
	if p == nil {
		fmt.Fprintln(os.Stderr, "unknown property", rf.Property)
		return 2
	}
	if rf.Race != nil {
		// race supplement: not a tape; the seed is re-run on real goroutines in the -race binary
		if raceBin() == "" {
			fmt.Fprintln(os.Stderr, "INFRASTRUCTURE ERROR: no race-detector binary (run through bin/check)")
			return 2
		}
		if replayRace(rf.Race) {
			fmt.Printf("replay: %s\nVIOLATION property=%s replay=%s\n", rf.Class, rf.Property, path)
			return 1
		}
		fmt.Printf("replay: the report %q did not recur in %d s of re-running seed %d\n", rf.Race.Signature, rf.Race.Seconds, rf.Race.Seed)
		return 0
	}
	r, err := runReplay(p, &rf, true)
	if err != nil {
		fmt.Fprintln(os.Stderr, "INFRASTRUCTURE ERROR:", err)
		return 2
	}
	if r.V == nil {
		if verbose {
			fmt.Println("replay: no violation")
		}
		return 0
	}
	if verbose {
		fmt.Printf("replay: %s\n%s\n", r.V.Class(), r.V.Msg)
		if r.Sample != nil {
			fmt.Printf("case: %s\n", jsonStr(r.Sample))
		}
	}
	if r.V.Class() == rf.Class {
		if verbose {
			fmt.Printf("VIOLATION property=%s replay=%s\n", rf.Property, path)
		}
		return 1
	}
	return 3
}

func shrinkAndConfirm(p *PropDef, tier string, master uint64, fv FoundViolation, tmp string, budget int) (string, *Violation, error) {
	in := filepath.Join(tmp, fmt.Sprintf("v-%d.json", fv.Index))
	rf := &ReplayFile{Property: p.ID, Tier: tier, MasterSeed: master, RunIndex: fv.Index, RunSeed: fv.Seed, Streams: fv.Tape, Violation: &fv.V, Class: fv.V.Class()}
	b, _ := json.Marshal(rf)
	os.WriteFile(in, b, 0666)
	h := hashString(jsonStr(fv.Tape)) & 0xffffff
	out := filepath.Join(replayDir(p.ID), fmt.Sprintf("%s-%d-%06x.json", p.ID, fv.Seed, h))
	cmd := exec.Command(selfExe(), "shrink", "-in", in, "-out", out, "-budget", strconv.Itoa(budget))
	var se strings.Builder
	cmd.Stderr = &se
	if err := cmd.Run(); err != nil {
		return "", nil, fmt.Errorf("shrink failed: %v %s", err, se.String())
	}
	// confirm in a fresh process
	c := exec.Command(selfExe(), "replay", out)
	var so strings.Builder
	c.Stdout = &so
	c.Stderr = &so
	err := c.Run()
	code := 0
	if ee, ok := err.(*exec.ExitError); ok {
		code = ee.ExitCode()
	} else if err != nil {
		return "", nil, err
	}
	if code != 1 {
		return "", nil, fmt.Errorf("fresh-process replay exit code %d: %s", code, so.String())
	}
	ob, _ := os.ReadFile(out)
	var orf ReplayFile
	json.Unmarshal(ob, &orf)
	return out, orf.Violation, nil
}

// cmdOne runs a single index and prints the outcome (debugging aid).
func cmdOne(args []string) int {
	fs := flag.NewFlagSet("one", flag.ExitOnError)
	prop := fs.String("prop", "", "")
	tier := fs.String("tier", "quick", "")
	seed := fs.Uint64("seed", masterSeed(), "")
	index := fs.Int("index", 0, "")
	fs.Parse(args)
	p := props[*prop]
	if p == nil {
		return 2
	}
	r := newRun(p, *tier, *seed, *index, true)
	if err := execute(p, r); err != nil {
		fmt.Println("INFRA:", err)
		return 2
	}
	fmt.Printf("hash=%016x steps=%d pre=%d probes=%v faults=%v\n", r.hash, r.Steps, r.Pre, r.Probes, r.Faults)
	fmt.Println("sample:", jsonStr(r.Sample))
	for _, h := range r.History {
		fmt.Println("  ", jsonStr(h))
	}
	if r.V != nil {
		fmt.Println("VIOLATION", r.V.Class(), r.V.Msg)
		return 1
	}
	return 0
}

// startWatchdog: a simulated step takes microseconds; if nothing is scheduled for a long real
// time some goroutine is blocked on something the simulator cannot see. Exit code 4.
func startWatchdog() {
	limit := 90
	if v := os.Getenv("VERIF_WATCHDOG"); v != "" {
		if n, err := strconv.Atoi(v); err == nil && n > 0 {
			limit = n
		}
	}
	go func() {
		last := atomic.LoadInt64(&progressCounter)
		idle := 0
		for {
			time.Sleep(time.Second)
			cur := atomic.LoadInt64(&progressCounter)
			if cur != last {
				last, idle = cur, 0
				continue
			}
			idle++
			if idle >= limit {
				fmt.Fprintf(os.Stderr, "WATCHDOG: no scheduling event for %d s; goroutine dump follows\n", limit)
				pprof.Lookup("goroutine").WriteTo(os.Stderr, 1)
				os.Exit(4)
			}
		}
	}()
}

// determinismSample re-executes the first run indices of the batch in two fresh processes at
// GOMAXPROCS 1 and 16 and compares the per-run hashes (trace, responses, final state). Replay
// and minimisation rest on this; a difference is an infrastructure error (exit 2), never a
// violation. The full self-test is `simcheck selftest`.
var determinismEvidence map[string]interface{}

func determinismSample(id string, master uint64, tmp string) (bool, string) {
	const n = 24
	var ref map[string]string
	for k, procs := range []string{"1", "16"} {
		out := filepath.Join(tmp, fmt.Sprintf("det-%d.json", k))
		cmd := exec.Command(selfExe(), "worker", "-prop", id, "-tier", "quick", "-seed", strconv.FormatUint(master, 10),
			"-from", "0", "-to", strconv.Itoa(n), "-step", "1", "-out", out, "-hashes")
		cmd.Env = append(os.Environ(), "GOMAXPROCS="+procs, "VERIF_SCRATCH_DIR="+tmp)
		if err := cmd.Run(); err != nil {
			if ee, ok := err.(*exec.ExitError); ok && ee.ExitCode() == 4 && (id == "C20" || id == "C19") {
				// the watchdog fired inside the sample: the batch itself will meet the same run,
				// re-execute it in a fresh process and report the hang as what it is
				determinismEvidence = map[string]interface{}{"skipped": "a run of the sample hung (watchdog); left to the batch"}
				return true, ""
			}
			return false, fmt.Sprintf("determinism sample: worker failed: %v", err)
		}
		b, _ := os.ReadFile(out)
		var res WorkerResult
		if err := json.Unmarshal(b, &res); err != nil || res.InfraErr != "" {
			return false, fmt.Sprintf("determinism sample: %v %s", err, res.InfraErr)
		}
		if ref == nil {
			ref = res.RunHashes
			continue
		}
		for i, h := range ref {
			if res.RunHashes[i] != h {
				return false, fmt.Sprintf("NONDETERMINISM property=%s run_index=%s: GOMAXPROCS=1 gives %s, GOMAXPROCS=16 gives %s", id, i, h, res.RunHashes[i])
			}
		}
	}
	determinismEvidence = map[string]interface{}{"runs": len(ref), "processes": "2 fresh processes, GOMAXPROCS 1 and 16", "identical": true}
	return true, ""
}
