package main

import (
	"strings"

	"google.golang.org/protobuf/encoding/prototext"
	"google.golang.org/protobuf/proto"
)

func compactProto(m proto.Message) string {
	s := prototext.MarshalOptions{Multiline: false}.Format(m)
	return strings.Join(strings.Fields(s), " ")
}
