package main

import (
	"fmt"
	"sort"

	btapb "cloud.google.com/go/bigtable/admin/apiv2/adminpb"
	"google.golang.org/grpc/codes"
	"google.golang.org/protobuf/types/known/durationpb"
)

// C16: garbage collection: (a) policy against the GC model, (b) a pass running concurrently with
// writers, (c) not on a table in use, (d) no indefinite blocking (deadlock / livelock verdicts).

func init() {
	register(&PropDef{
		ID: "C16", Level: "exploration", Quick: 15000, Thorough: 300000, QuickCap: 110,
		Rule:   "four sub-workloads drawn per run. policy: random rule trees (max-versions, max-age, nested unions, intersection, none) per family over cells whose timestamps sit exactly at, 1 ms before and after the cut-off (server clock drawn so that now-age falls on, just below and just above a cell), one forced pass (a third of the runs over 30-230 rows inserted once in key order, so that the pass rewrites rows in structures as a bulk load leaves them), every table compared with the GC model. concurrent: one pass task plus 1-3 add-only writer tasks (one writer per row) on tables of 1-400 rows under the seeded scheduler; per row GC(M) <= final <= M. activity: a non-forced pass 1 ms..1 s of wall clock after a read or write must collect nothing (and after an idle jump of hours it is expected to collect - probe only). round: the server's real gcloop (timer wait, round assembly, one pass per table in turn) runs as a task over a large and a small table that have been idle for hours; a client that sees the pass over the large table under way writes to the small one; if the loop never looks at the clock again after that observation, it must not collect the small table in this round. distinct = hash of (sub-workload, rules, trace); non-trivial = concurrent run with a write completed inside the pass, or a policy run that condemned at least one cell",
		Real:   []string{"bttest table.gc, applyGC, gc quiescence test, MutateRow, ReadRows", "all engines (the concurrent sub-workload includes the btree engine since the pass restarts its iteration after every lock hand-over, see DESIGN 2.1)"},
		Stub:   []string{"gcloop's timer (the round sub-workload runs the real loop body and round assembly; the other sub-workloads start single passes directly)", "wall clock and server clock (simulator-owned)", "cooperative table mutex"},
		Assume: []string{"writers in the concurrent sub-workload only add cells, so that GC(M_final) <= final is implied by the statement for every pass instant", "the activity sub-workload uses no constant from the code: 'in use' = touched at most 1 s of wall clock ago"},
		Run:    runC16,
	})
	expectedProbes["C16"] = []string{"c16.condemned", "c16.many_rows_pass", "c16.round_skipped_table_used_during_round", "c16.boundary_cell", "c16.write_inside_pass", "c16.active_table_skipped", "c16.touched_after_long_idle", "c16.rows_wholly_condemned", "c16.rule_relaxed_and_rows_written_during_pass", "c16.round_with_concurrent_schema_changes", "c16.pass_attempted_during_a_scan", "c16.server_clock_skewed", "c16.idle_table_collected", "c16.union", "c16.intersection_untouched"}
}

func c16Rule(d *draws) *btapb.GcRule {
	sub := d.sub(6)
	age := func() *durationpb.Duration {
		return &durationpb.Duration{Seconds: []int64{0, 1, 3600}[sub.n(3)], Nanos: []int32{0, 5000000, 1000}[sub.n(3)]}
	}
	switch sub.w(2, 4, 4, 3, 1, 1) {
	case 0:
		return nil
	case 1:
		return &btapb.GcRule{Rule: &btapb.GcRule_MaxNumVersions{MaxNumVersions: int32(1 + sub.n(3))}}
	case 2:
		a := age()
		if a.Seconds == 0 && a.Nanos == 0 {
			a.Nanos = 2000000
		}
		return &btapb.GcRule{Rule: &btapb.GcRule_MaxAge{MaxAge: a}}
	case 3:
		a := age()
		inner := &btapb.GcRule{Rule: &btapb.GcRule_Union_{Union: &btapb.GcRule_Union{Rules: []*btapb.GcRule{
			{Rule: &btapb.GcRule_MaxAge{MaxAge: a}}, {Rule: &btapb.GcRule_MaxNumVersions{MaxNumVersions: int32(2 + sub.n(2))}}}}}}
		if sub.n(2) == 0 {
			return inner
		}
		return &btapb.GcRule{Rule: &btapb.GcRule_Union_{Union: &btapb.GcRule_Union{Rules: []*btapb.GcRule{inner, {Rule: &btapb.GcRule_MaxNumVersions{MaxNumVersions: 1}}}}}}
	case 4:
		return &btapb.GcRule{Rule: &btapb.GcRule_Intersection_{Intersection: &btapb.GcRule_Intersection{Rules: []*btapb.GcRule{
			{Rule: &btapb.GcRule_MaxNumVersions{MaxNumVersions: 1}}, {Rule: &btapb.GcRule_MaxAge{MaxAge: &durationpb.Duration{Seconds: 1}}}}}}}
	default:
		return &btapb.GcRule{} // rule message with nothing set
	}
}

func ageMicros(g *btapb.GcRule) []int64 {
	if g == nil {
		return nil
	}
	switch x := g.Rule.(type) {
	case *btapb.GcRule_MaxAge:
		return []int64{x.MaxAge.Seconds*1e6 + int64(x.MaxAge.Nanos)/1e3}
	case *btapb.GcRule_Union_:
		var out []int64
		for _, s := range x.Union.Rules {
			out = append(out, ageMicros(s)...)
		}
		return out
	}
	return nil
}

func runC16(r *Run) {
	cfg := r.T.S("cfg")
	mode := cfg.Weighted([]int{4, 4, 2, 1})
	if r.Index < 8 {
		mode = r.Index % 4
	}
	switch mode {
	case 0:
		c16Policy(r, cfg)
	case 1:
		c16Concurrent(r, cfg)
	case 3:
		c16Loop(r, cfg)
	default:
		if r.Index%4 == 2 && (r.Index/4)%3 == 0 {
			c16ScanInProgress(r, cfg)
			return
		}
		c16Activity(r, cfg)
	}
}

// c16ScanInProgress: a table that was idle for hours is being scanned; the scan spans several
// response messages (the table lock is free while a message is sent). A non-forced pass is
// attempted while the client is still reading: the table is in active use, nothing may be collected
// before the scan is over.
func c16ScanInProgress(r *Run, cfg *Stream) {
	engine := []string{engLdbMem, engLdbDisk, engBtree}[cfg.Intn(3)]
	d := record(r.T.S("prog.0"), 16)
	rule := &btapb.GcRule{Rule: &btapb.GcRule_MaxNumVersions{MaxNumVersions: 1}}
	clk := NewClock(1_700_000_000_000_000, 1_700_000_000_000_000_000)
	w := NewBTWorld(r, engine, clk, "")
	defer w.Destroy()
	if !c16Setup(r, w, map[string]*btapb.GcRule{"f1": rule}) {
		return
	}
	nRows := 40 + d.n(40)
	var entries []entryIn
	for i := 0; i < nRows; i++ {
		var muts mutList
		for c := 0; c < 30; c++ {
			muts = append(muts, setCell("f1", fmt.Sprintf("q%02d", c), 1000, "old"), setCell("f1", fmt.Sprintf("q%02d", c), 2000, "new"))
		}
		entries = append(entries, entryIn{Key: fmt.Sprintf("row%03d", i), Muts: muts})
	}
	if !c16Write(r, w, c16Tbl, entries) {
		return
	}
	idle := int64(6+d.n(72)) * 3600 * 1e9
	clk.WallNs += idle
	r.SimWallNs += idle
	at := d.n(3)
	attempted := false
	w.SendGate = func(n int) {
		if n != at || attempted {
			return
		}
		attempted = true
		short := int64(1+d.n(1000)) * 1e6
		clk.WallNs += short
		r.SimWallNs += short
		w.GC(c16Tbl, false) // the loop's non-forced pass, while the client is still reading
	}
	res := w.ReadAll(c16Tbl)
	w.SendGate = nil
	r.Sample = map[string]interface{}{"mode": "scan-in-progress", "engine": engine, "rows": nRows, "messages": res.Msgs, "pass_attempted_at_message": at}
	r.Mix(fmt.Sprintf("scan-in-progress%d", res.Msgs))
	if res.Err != nil || res.Bad != nil {
		r.Fail("read-failed", "", "%v %v", res.Err, res.Bad)
		return
	}
	if !attempted {
		return // the scan had fewer messages than drawn
	}
	r.Probe("c16.pass_attempted_during_a_scan")
	r.nontrivial = true
	// what the scan delivered after the attempt, and what is stored now, still has both versions
	after := w.ReadAll(c16Tbl)
	for _, rows := range [][]ORow{res.Rows, after.Rows} {
		if len(rows) != nRows {
			r.Fail("gc-on-active-table", "", "a non-forced pass attempted while a scan of the table was in progress (message %d of %d): %d rows instead of %d", at, res.Msgs, len(rows), nRows)
			return
		}
		for _, row := range rows {
			if len(row.Cells) != 60 {
				r.Fail("gc-on-active-table", "", "the table had been idle for %d h when a client began to scan it; a non-forced pass attempted while the scan was between its messages %d and %d (of %d) collected cells: row %q has %d of 60 cells", idle/3600e9, at, at+1, res.Msgs, row.Key, len(row.Cells))
				return
			}
		}
	}
}

const c16Tbl = "projects/p/instances/i/tables/t"
const c16Tbl2 = "projects/p/instances/i/tables/other"

func c16Setup(r *Run, w *BTWorld, fams map[string]*btapb.GcRule) bool {
	if _, err := w.CreateTable("projects/p/instances/i", "t", fams); err != nil {
		r.Fail("setup", "", "CreateTable: %v", err)
		return false
	}
	return true
}

func c16Write(r *Run, w *BTWorld, tbl string, entries []entryIn) bool {
	for i := 0; i < len(entries); i += 100 {
		j := i + 100
		if j > len(entries) {
			j = len(entries)
		}
		cs, err := w.MutateRows(tbl, entries[i:j])
		if err != nil {
			r.Fail("setup", "", "MutateRows: %v", err)
			return false
		}
		for _, c := range cs {
			if c != codes.OK {
				r.Fail("setup", "", "entry rejected: %v", c)
				return false
			}
		}
	}
	return true
}

func c16Policy(r *Run, cfg *Stream) {
	engine := pickEngine(r, cfg)
	ps := r.T.S("prog.0")
	d := record(ps, 320)
	fams := map[string]*btapb.GcRule{"f1": c16Rule(d), "f2": c16Rule(d), "f3": c16Rule(d)}
	// cell timestamps: whole milliseconds around a base
	base := int64(1_700_000_000_000_000)
	// choose now so that (now - age) sits on / just below / just above a cell timestamp
	var ages []int64
	for _, f := range []string{"f1", "f2", "f3"} {
		ages = append(ages, ageMicros(fams[f])...)
		if fams[f] != nil {
			if _, ok := fams[f].Rule.(*btapb.GcRule_Union_); ok {
				r.Probe("c16.union")
			}
		}
	}
	now := base + 5000 + int64(d.n(4000))
	if len(ages) > 0 {
		a := ages[d.n(len(ages))]
		now = base + 2000 + a + int64(d.n(3)-1) // cut-off = base+2000 -1/0/+1
		r.Probe("c16.boundary_cell")
	}
	clk := NewClock(now, 1_700_000_000_000_000_000)
	w := NewBTWorld(r, engine, clk, "")
	defer w.Destroy()
	if !c16Setup(r, w, fams) {
		return
	}
	if _, err := w.CreateTable("projects/p/instances/i", "other", map[string]*btapb.GcRule{"f1": nil}); err != nil {
		r.Fail("setup", "", "CreateTable: %v", err)
		return
	}
	model := newBTModel()
	mt, mo := newMTable(), newMTable()
	for f, g := range fams {
		mt.Fams[f] = g
	}
	mo.Fams["f1"] = nil
	model.Tables[c16Tbl], model.Tables[c16Tbl2] = mt, mo
	nRows := 1 + d.n(5)
	var entries []entryIn
	for i := 0; i < 5; i++ {
		var muts mutList
		nc := 1 + d.n(9)
		for c := 0; c < 9; c++ {
			ts := base + int64(d.n(6))*1000
			if d.n(5) == 0 {
				ts = []int64{0, 1000, maxValidTs, now - now%1000, now - now%1000 + 1000}[d.n(5)]
			}
			m := setCell([]string{"f1", "f2", "f3"}[d.n(3)], []string{"q", "r", ""}[d.n(3)], ts, fmt.Sprintf("v%d.%d", i, c))
			if c < nc {
				muts = append(muts, m)
			}
		}
		if i < nRows {
			key := fmt.Sprintf("r%d", i)
			entries = append(entries, entryIn{Key: key, Muts: muts})
			mt.Rows[key] = mt.applyMutations(mRow{}, muts, now).row
		}
	}
	// a third of the runs: many more rows, each inserted once and in key order (copies of the
	// drawn rows), so that the pass rewrites rows while the engine's structures are as a bulk
	// load leaves them (full tree nodes, several iterator batches, several lock hand-overs)
	if d.n(3) == 0 {
		nFill := 25 + d.n(200)
		for e := 0; e < nFill; e++ {
			key := fmt.Sprintf("s%04d", e)
			muts := entries[e%nRows].Muts
			entries = append(entries, entryIn{Key: key, Muts: muts})
			mt.Rows[key] = mt.applyMutations(mRow{}, muts, now).row
		}
		r.Probe("c16.many_rows_pass")
	}
	if !c16Write(r, w, c16Tbl, entries) {
		return
	}
	oth := entryIn{Key: "x", Muts: mutList{setCell("f1", "q", 0, "old"), setCell("f1", "q", 1000, "old2")}}
	if !c16Write(r, w, c16Tbl2, []entryIn{oth}) {
		return
	}
	mo.Rows["x"] = mo.applyMutations(mRow{}, oth.Muts, now).row
	before := mt.clone()
	// one forced pass over table t only
	op := btOp{Kind: "GC", Table: c16Tbl, Force: true}
	resp := execOp(w, op)
	model.step(op, resp, now)
	condemned := 0
	for k, row := range before.Rows {
		b, a := len(row.render(k).Cells), len(mt.row(k).render(k).Cells)
		condemned += b - a
	}
	if condemned > 0 {
		r.Probe("c16.condemned")
		r.nontrivial = true
	}
	for _, g := range fams {
		if g != nil {
			if _, ok := g.Rule.(*btapb.GcRule_Intersection_); ok {
				r.Probe("c16.intersection_untouched")
			}
		}
	}
	r.Mix("policy" + famsString(fams))
	r.Sample = map[string]interface{}{"mode": "policy", "engine": engine, "rules": famsString(fams), "now": now, "rows": before.render(), "condemned": condemned}
	for _, t := range []string{c16Tbl, c16Tbl2} {
		rr := w.ReadAll(t)
		if rr.Err != nil || rr.Bad != nil {
			r.Fail("read-failed", "", "%v %v", rr.Err, rr.Bad)
			return
		}
		if err := compareRows("after one forced GC pass (now="+fmt.Sprint(now)+", rules "+famsString(fams)+") table "+shortTable(t), rr.Rows, model.Tables[t].render(), false); err != nil {
			r.Fail("gc-policy", "", "%v\n  before: %s", err, rowsString(before.render()))
			return
		}
		// rows left without cells are removed: SampleRowKeys must not report them
		sop := btOp{Kind: "Sample", Table: t}
		if k, msg := model.step(sop, execOp(w, sop), now); k != "" {
			r.Fail("gc-empty-row-kept", "", "after one forced GC pass (rules %s): %s\n  before: %s", famsString(fams), msg, rowsString(before.render()))
			return
		}
	}
}

func c16Concurrent(r *Run, cfg *Stream) {
	engine := []string{engLdbMem, engBtree, engLdbDisk}[cfg.Intn(3)] // the pass restarts its iteration after every lock hand-over, so the btree engine takes part too
	if r.Index < 6 {
		engine = engLdbMem
	}
	nRows := []int{1, 7, 60, 150, 400}[cfg.Intn(5)]
	if r.Index < 6 {
		nRows = 250
	}
	nWriters := 1 + cfg.Intn(3)
	opsPer := 1 + cfg.Intn(5)
	d := record(r.T.S("prog.0"), 16)
	maxv := int32(1 + d.n(2))
	rule := &btapb.GcRule{Rule: &btapb.GcRule_MaxNumVersions{MaxNumVersions: maxv}}
	if d.n(3) == 0 {
		rule = &btapb.GcRule{Rule: &btapb.GcRule_Union_{Union: &btapb.GcRule_Union{Rules: []*btapb.GcRule{rule, {Rule: &btapb.GcRule_MaxAge{MaxAge: &durationpb.Duration{Seconds: 10}}}}}}}
	}
	doomed := false
	if d.n(3) == 0 {
		rule = &btapb.GcRule{Rule: &btapb.GcRule_MaxAge{MaxAge: &durationpb.Duration{Seconds: 10}}}
		doomed = true
		r.Probe("c16.rows_wholly_condemned")
	}
	fams := map[string]*btapb.GcRule{"f1": rule, "f2": nil}
	now := int64(1_700_000_000_000_000)
	clk := NewClock(now, 1_700_000_000_000_000_000)
	w := NewBTWorld(r, engine, clk, "")
	defer w.Destroy()
	if !c16Setup(r, w, fams) {
		return
	}
	mt := newMTable()
	mt.Fams["f1"], mt.Fams["f2"] = rule, nil
	var keys []string
	var entries []entryIn
	for i := 0; i < nRows; i++ {
		k := fmt.Sprintf("row%04d", i)
		keys = append(keys, k)
		// three versions in f1:q (some condemned), one in f2
		muts := mutList{setCell("f1", "q", now-3000, "a"), setCell("f1", "q", now-2000, "b"), setCell("f1", "q", now-20_000_000, "old"), setCell("f2", "k", now-20_000_000, "keep")}
		if doomed && i%3 == 1 {
			// a row every cell of which the rule condemns: the pass removes the whole row,
			// unless a client writes it anew while the pass is running
			muts = mutList{setCell("f1", "q", now-20_000_000, "old"), setCell("f1", "z", now-30_000_000, "older")}
		}
		entries = append(entries, entryIn{Key: k, Muts: muts})
		mt.Rows[k] = mt.applyMutations(mRow{}, muts, now).row
	}
	if !c16Write(r, w, c16Tbl, entries) {
		return
	}
	s := r.NewSched()
	s.Budget = 2000000
	var evt, gcCall, gcRet int64
	inside := false
	for j := 0; j < nWriters; j++ {
		j := j
		ps := r.T.S(fmt.Sprintf("prog.%d", j+1))
		var plan []int
		for i := 0; i < 5; i++ {
			dd := record(ps, 4)
			cnt := (nRows - j + nWriters - 1) / nWriters
			idx := j + nWriters*dd.n(cnt)
			if idx >= nRows {
				idx = j % nRows
			}
			if i < opsPer {
				plan = append(plan, idx)
			}
		}
		if j >= nRows {
			continue
		}
		s.Go(fmt.Sprintf("w%d", j), func() {
			for n, idx := range plan {
				if r.Failed() {
					return
				}
				k := keys[idx]
				// add-only: a newer version in the collected column and a cell in the other family
				m := mutList{setCell("f1", "q", now+int64(1+n+10*j)*1000, fmt.Sprintf("w%d.%d", j, n)), setCell("f2", fmt.Sprintf("w%d", j), now, fmt.Sprintf("x%d", n))}
				evt++
				call := evt
				var err error
				if doomed && (n+j)%3 == 0 {
					// read the row, then a predicate-less CheckAndMutateRow with the same
					// mutations in both branches. This writer is the only client of the row and a
					// pass only removes cells: if the read shows no cell, the row has none when
					// the request runs, so predicate_matched must be false.
					rr := w.ReadRow(c16Tbl, k)
					matched, e2 := w.CheckAndMutate(c16Tbl, k, nil, m, m)
					err = e2
					if e2 == nil && rr.Err == nil && len(rr.Rows) == 0 {
						r.Probe("c16.cam_on_row_emptied_by_pass")
						if matched {
							r.Fail("cam-on-collected-row", "", "row %q had no cell when read, nobody else writes it and a pass only removes cells, yet a predicate-less CheckAndMutateRow right after reports predicate_matched=true", k)
							return
						}
					}
				} else {
					err = w.MutateRow(c16Tbl, k, m)
				}
				evt++
				if err != nil {
					r.Fail("writer-failed", "", "writer %d on %q: %v", j, k, err)
					return
				}
				mt.Rows[k] = mt.applyMutations(mt.row(k), m, now).row
				if gcCall != 0 && call > gcCall && gcRet == 0 {
					inside = true
				}
			}
		})
	}
	// in a quarter of the runs an administrator relaxes the rule of f1 while the pass is running
	// (nothing is condemned any more) and, once that is acknowledged, writes rows of several
	// versions at the end of the key space. Those cells were only ever subject to the new rule.
	relaxed := map[string]ORow{}

	if d.n(4) == 3 {
		s.Go("admin", func() {
			for gcCall == 0 && !r.Failed() {
				s.Yield("admin.wait")
			}
			loose := &btapb.GcRule{Rule: &btapb.GcRule_MaxNumVersions{MaxNumVersions: 1000}}
			mod := []*btapb.ModifyColumnFamiliesRequest_Modification{{Id: "f1", Mod: &btapb.ModifyColumnFamiliesRequest_Modification_Update{Update: &btapb.ColumnFamily{GcRule: loose}}}}
			if _, err := w.ModifyFamilies(c16Tbl, mod); err != nil {
				r.Fail("admin-failed", "", "ModifyColumnFamilies(update f1) during a pass: %v", err)
				return
			}
			for i := 0; i < 3; i++ {
				k := fmt.Sprintf("zzz%d", i)
				m := mutList{setCell("f1", "q", now-40_000_000, "v1"), setCell("f1", "q", now-50_000_000, "v2"), setCell("f1", "q", now-60_000_000, "v3")}
				if err := w.MutateRow(c16Tbl, k, m); err != nil {
					r.Fail("writer-failed", "", "admin write on %q: %v", k, err)
					return
				}
				relaxed[k] = mt.applyMutations(mRow{}, m, now).row.render(k)
			}
			if gcRet == 0 {
				r.Probe("c16.rule_relaxed_and_rows_written_during_pass")
			}
		})
	}
	s.Go("gc", func() {
		evt++
		gcCall = evt
		w.GC(c16Tbl, true)
		evt++
		gcRet = evt
	})
	v := s.Run()
	r.FinishSched(s, v)
	r.Sample = map[string]interface{}{"mode": "concurrent", "engine": engine, "rows": nRows, "writers": nWriters, "ops_per_writer": opsPer, "rule": gcRuleString(rule), "steps": s.Steps, "preemptions": s.Pre, "write_inside_pass": inside}
	if r.Failed() {
		return
	}
	if inside {
		r.Probe("c16.write_inside_pass")
		r.nontrivial = true
	}
	rr := w.ReadAll(c16Tbl)
	if rr.Err != nil || rr.Bad != nil {
		r.Fail("read-failed", "", "%v %v", rr.Err, rr.Bad)
		return
	}
	got := map[string]ORow{}
	for _, row := range rr.Rows {
		got[row.Key] = row.canonical()
	}
	for _, k := range keys {
		M := mt.row(k)
		lower := mt.gcRow(M, now).render(k)
		upper := M.render(k)
		g := got[k]
		has := func(o ORow, c OCell) bool {
			for _, x := range o.Cells {
				if x.Fam == c.Fam && x.Qual == c.Qual && x.Ts == c.Ts {
					return x.Val == c.Val
				}
			}
			return false
		}
		for _, c := range lower.Cells {
			if !has(g, c) {
				r.Fail("gc-lost-write", "", "row %q: cell %s:%q@%d=%q is retained by the rule %s and was acknowledged, but is missing or altered after the pass\n  final:  %s\n  writes: %s", k, c.Fam, c.Qual, c.Ts, c.Val, gcRuleString(rule), g, upper)
				return
			}
		}
		for _, c := range g.Cells {
			if !has(upper, c) {
				r.Fail("gc-invented-cell", "", "row %q: cell %s:%q@%d=%q was never written\n  final:  %s\n  writes: %s", k, c.Fam, c.Qual, c.Ts, c.Val, g, upper)
				return
			}
		}
		r.Mix(g.String())
	}
	for k, want := range relaxed {
		if g, ok := got[k]; !ok || !equalRows(g, want.canonical()) {
			r.Fail("gc-stale-rule", "", "the rule of f1 was relaxed to max-versions 1000 (acknowledged) while a pass was running; row %q was written afterwards with three versions, which only the new rule ever applied to, but after the pass it reads %s (old rule %s)", k, got[k], gcRuleString(rule))
			return
		}
		delete(got, k)
	}
	for k := range got {
		if _, ok := mt.Rows[k]; !ok {
			r.Fail("gc-invented-row", "", "row %q appeared", k)
			return
		}
	}
}

func c16Activity(r *Run, cfg *Stream) {
	engine := pickEngine(r, cfg)
	d := record(r.T.S("prog.0"), 16)
	rule := &btapb.GcRule{Rule: &btapb.GcRule_MaxNumVersions{MaxNumVersions: 1}}
	now := int64(1_700_000_000_000_000)
	// the injected server clock is unrelated to the wall clock that stamps table activity: it
	// may run hours ahead of it or behind it ("in use" is about wall-clock activity)
	switch d.n(3) {
	case 1:
		now += int64(1+d.n(48)) * 3600 * 1e6
		r.Probe("c16.server_clock_skewed")
	case 2:
		now -= int64(1+d.n(48)) * 3600 * 1e6
		r.Probe("c16.server_clock_skewed")
	}
	clk := NewClock(now, 1_700_000_000_000_000_000)
	w := NewBTWorld(r, engine, clk, "")
	defer w.Destroy()
	if !c16Setup(r, w, map[string]*btapb.GcRule{"f1": rule}) {
		return
	}
	muts := mutList{setCell("f1", "q", 1000, "a"), setCell("f1", "q", 2000, "b"), setCell("f1", "q", 3000, "c")}
	// the table has just been created (wall clock now); let it become idle or not
	idleFirst := d.n(2) == 1
	if idleFirst {
		clk.WallNs += int64(2+d.n(48)) * 3600 * 1e9
	}
	if !c16Write(r, w, c16Tbl, []entryIn{{Key: "k", Muts: muts}}) {
		return
	}
	// optionally the table then sits idle for hours and is touched again (by a read only, or by
	// a write to another row) just before the pass: it is in use again, whatever came before
	touch := d.n(3)
	if touch != 0 && d.n(2) == 1 {
		idle := int64(6+d.n(72)) * 3600 * 1e9
		clk.WallNs += idle
		r.SimWallNs += idle
		r.Probe("c16.touched_after_long_idle")
	}
	switch touch {
	case 1:
		if d.n(2) == 0 {
			w.ReadAll(c16Tbl)
		} else {
			w.ReadRow(c16Tbl, "k")
		}
	case 2:
		w.MutateRow(c16Tbl, "k2", mutList{setCell("f1", "q", 1000, "z")})
	}
	// a short interval of wall-clock time later a non-forced pass is attempted
	short := int64(1+d.n(1000)) * 1e6 // 1 ms .. 1 s
	clk.WallNs += short
	r.SimWallNs += short
	w.GC(c16Tbl, false)
	rr := w.ReadRow(c16Tbl, "k")
	r.Sample = map[string]interface{}{"mode": "activity", "engine": engine, "touch": touch, "short_ns": short}
	r.Mix(fmt.Sprintf("activity%d", touch))
	if rr.Err != nil || len(rr.Rows) != 1 {
		r.Fail("read-failed", "", "%v rows=%d", rr.Err, len(rr.Rows))
		return
	}
	if len(rr.Rows[0].Cells) != 3 {
		r.Fail("gc-on-active-table", "", "a non-forced pass %d ms of wall-clock time after the table was last written/read collected cells: %s", short/1e6, rr.Rows[0])
		return
	}
	r.Probe("c16.active_table_skipped")
	// long idle: the pass is expected to run now (probe only: no bound is stated)
	jump := int64(6+d.n(72)) * 3600 * 1e9
	clk.WallNs += jump
	r.SimWallNs += jump
	w.GC(c16Tbl, false)
	rr2 := w.ReadRow(c16Tbl, "k")
	if rr2.Err == nil && len(rr2.Rows) == 1 {
		switch len(rr2.Rows[0].Cells) {
		case 1:
			r.Probe("c16.idle_table_collected")
			if rr2.Rows[0].Cells[0].Val != "c" {
				r.Fail("gc-policy", "", "max-versions 1 kept %s", rr2.Rows[0])
			}
		case 3:
		default:
			r.Fail("gc-policy", "", "max-versions 1 left %s", rr2.Rows[0])
		}
	}
	var ks []string
	ks = append(ks, "k")
	sort.Strings(ks)
}
