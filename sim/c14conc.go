package main

import (
	btpb "cloud.google.com/go/bigtable/apiv2/bigtablepb"
	"fmt"
	"sort"
	"strings"
	"time"

	btapb "cloud.google.com/go/bigtable/admin/apiv2/adminpb"
	"github.com/anishathalye/porcupine"
	"google.golang.org/grpc/codes"
	"google.golang.org/grpc/status"
)

// C14, concurrent part: the registry clauses (AlreadyExists if present, NotFound after deletion,
// a re-created table starts empty, modifications all-or-none, a dropped family's cells are gone)
// stated for sequences must also hold when admin and data requests on one table name overlap:
// every response must be explained by some serial order of the requests that respects real-time
// order. Checked with porcupine per table name against a small registry model.

type c14cIn struct {
	Kind string // create delete get list addf2 dropf2 mutate rmw2 read dropprefix dropall
	Key  string
	Fam  string
	Val  string
	Desc string
}

type c14cOut struct {
	Code codes.Code
	Fams string // get: sorted family names
	Has  bool   // list: the table is listed
	Row  string // read: rendered row ("" = no row)
}

type c14cState struct {
	exists bool
	f2     bool
	rows   map[string]map[string]string // key -> family -> value (one cell per family: q@1000)
}

func (s c14cState) clone() c14cState {
	n := c14cState{exists: s.exists, f2: s.f2, rows: map[string]map[string]string{}}
	for k, r := range s.rows {
		nr := map[string]string{}
		for f, v := range r {
			nr[f] = v
		}
		n.rows[k] = nr
	}
	return n
}

func (s c14cState) render() string {
	if !s.exists {
		return "-"
	}
	var ks []string
	for k := range s.rows {
		ks = append(ks, k)
	}
	sort.Strings(ks)
	var sb strings.Builder
	fmt.Fprintf(&sb, "f2=%v", s.f2)
	for _, k := range ks {
		sb.WriteString("|" + k + ":" + s.rowString(k))
	}
	return sb.String()
}

func (s c14cState) rowString(k string) string {
	r := s.rows[k]
	var fs []string
	for f := range r {
		fs = append(fs, f)
	}
	sort.Strings(fs)
	var parts []string
	for _, f := range fs {
		parts = append(parts, f+"="+r[f])
	}
	return strings.Join(parts, ",")
}

func (s c14cState) fams() string {
	if s.f2 {
		return "f1,f2"
	}
	return "f1"
}

// c14cStep: the sequential specification. ok=false means the recorded output is impossible in
// this state. Only the codes the statement names are demanded (NotFound, AlreadyExists); any
// other failure is "some error".
func c14cStep(st c14cState, in c14cIn, out c14cOut) (bool, c14cState) {
	isErr := out.Code != codes.OK
	if !st.exists && in.Kind != "create" && in.Kind != "list" {
		return out.Code == codes.NotFound, st
	}
	switch in.Kind {
	case "create":
		if st.exists {
			return out.Code == codes.AlreadyExists, st
		}
		if isErr {
			return false, st
		}
		return true, c14cState{exists: true, rows: map[string]map[string]string{}}
	case "delete":
		if isErr {
			return false, st
		}
		return true, c14cState{}
	case "get":
		return !isErr && out.Fams == st.fams(), st
	case "list":
		return !isErr && out.Has == st.exists, st
	case "addf2":
		if st.f2 {
			return isErr, st
		}
		if isErr {
			return false, st
		}
		n := st.clone()
		n.f2 = true
		return true, n
	case "dropf2":
		if !st.f2 {
			return isErr, st
		}
		if isErr {
			return false, st
		}
		n := st.clone()
		n.f2 = false
		for k, r := range n.rows {
			delete(r, "f2")
			if len(r) == 0 {
				delete(n.rows, k)
			}
		}
		return true, n
	case "mutate":
		if in.Fam == "f2" && !st.f2 {
			return isErr, st
		}
		if isErr {
			return false, st
		}
		n := st.clone()
		if n.rows[in.Key] == nil {
			n.rows[in.Key] = map[string]string{}
		}
		n.rows[in.Key][in.Fam] = in.Val
		return true, n
	case "rmw2":
		// one ReadModifyWriteRow with a rule in f1 and a rule in f2 (column "a", which the reads
		// of this workload do not render): with f2 absent it fails as a whole; otherwise it
		// succeeds and its response carries the new cell of each of the two families
		if !st.f2 {
			return isErr, st
		}
		return !isErr && out.Row == "f1,f2", st
	case "read":
		return !isErr && out.Row == st.rowString(in.Key), st
	case "dropprefix":
		if isErr {
			return false, st
		}
		n := st.clone()
		for k := range n.rows {
			if strings.HasPrefix(k, in.Key) {
				delete(n.rows, k)
			}
		}
		return true, n
	case "dropall":
		if isErr {
			return false, st
		}
		n := st.clone()
		n.rows = map[string]map[string]string{}
		return true, n
	}
	return false, st
}

func c14ConcModel() porcupine.Model {
	return porcupine.Model{
		Init: func() interface{} { return c14cState{} },
		Step: func(state, input, output interface{}) (bool, interface{}) {
			ok, n := c14cStep(state.(c14cState), input.(c14cIn), output.(c14cOut))
			return ok, n
		},
		Equal: func(a, b interface{}) bool { return a.(c14cState).render() == b.(c14cState).render() },
	}
}

func c14Concurrent(r *Run, cfg *Stream) {
	engine := pickEngine(r, cfg)
	nClients := 2 + cfg.Intn(2)
	nOps := 1 + cfg.Intn(4)
	preCreate := cfg.Intn(3) != 0
	clk := NewClock(1_700_000_000_000_000, 1_700_000_000_000_000_000)
	w := NewBTWorld(r, engine, clk, "")
	defer w.Destroy()
	const parent = "projects/p/instances/i1"
	const tbl = parent + "/tables/t"
	// a bystander table that must stay listed and intact
	if _, err := w.CreateTable(parent, "keep", map[string]*btapb.GcRule{"f1": nil}); err != nil {
		r.Fail("setup", "", "%v", err)
		return
	}
	w.MutateRow(parent+"/tables/keep", "k", mutList{setCell("f1", "q", 1000, "kept")})

	var evt int64
	type hop struct {
		c         int
		in        c14cIn
		out       c14cOut
		call, ret int64
	}
	var hist []hop
	seq := 0
	exec := func(in c14cIn) c14cOut {
		var out c14cOut
		code := func(err error) codes.Code {
			if err == nil {
				return codes.OK
			}
			return status.Code(err)
		}
		switch in.Kind {
		case "create":
			_, err := w.CreateTable(parent, "t", map[string]*btapb.GcRule{"f1": nil})
			out.Code = code(err)
		case "delete":
			out.Code = code(w.DeleteTable(tbl))
		case "get":
			t, err := w.GetTable(tbl)
			out.Code = code(err)
			if err == nil {
				var fs []string
				for f := range t.ColumnFamilies {
					fs = append(fs, f)
				}
				sort.Strings(fs)
				out.Fams = strings.Join(fs, ",")
			}
		case "list":
			names, err := w.ListTablesView(parent, []btapb.Table_View{btapb.Table_VIEW_UNSPECIFIED, btapb.Table_SCHEMA_VIEW, btapb.Table_FULL}[int(evt)%3])
			out.Code = code(err)
			keep := false
			for _, n := range names {
				if n == tbl {
					out.Has = true
				}
				if n == parent+"/tables/keep" {
					keep = true
				}
			}
			if err == nil && !keep {
				r.Fail("bystander-missing", "", "ListTables(%s) during concurrent administration of another table does not list the untouched table 'keep': %v", parent, names)
			}
		case "addf2":
			_, err := w.ModifyFamilies(tbl, []*btapb.ModifyColumnFamiliesRequest_Modification{{Id: "f2", Mod: &btapb.ModifyColumnFamiliesRequest_Modification_Create{Create: &btapb.ColumnFamily{}}}})
			out.Code = code(err)
		case "dropf2":
			_, err := w.ModifyFamilies(tbl, []*btapb.ModifyColumnFamiliesRequest_Modification{{Id: "f2", Mod: &btapb.ModifyColumnFamiliesRequest_Modification_Drop{Drop: true}}})
			out.Code = code(err)
		case "mutate":
			out.Code = code(w.MutateRow(tbl, in.Key, mutList{setCell(in.Fam, "q", 1000, in.Val)}))
		case "rmw2":
			app := func(f string) *btpb.ReadModifyWriteRule {
				return &btpb.ReadModifyWriteRule{FamilyName: f, ColumnQualifier: []byte("a"), Rule: &btpb.ReadModifyWriteRule_AppendValue{AppendValue: []byte("x")}}
			}
			row, err := w.RMW(tbl, in.Key, []*btpb.ReadModifyWriteRule{app("f1"), app("f2")})
			out.Code = code(err)
			if err == nil && row != nil {
				var fs []string
				for _, c := range row.Cells {
					fs = append(fs, c.Fam)
				}
				sort.Strings(fs)
				out.Row = strings.Join(fs, ",")
			}
		case "read":
			rr := w.ReadRow(tbl, in.Key)
			out.Code = code(rr.Err)
			if rr.Bad != nil {
				r.Fail("malformed-response", "", "ReadRow during concurrent administration: %v", rr.Bad)
			}
			if rr.Err == nil && len(rr.Rows) == 1 {
				var parts []string
				for _, c := range rr.Rows[0].Cells {
					if c.Qual == "a" {
						continue // written by the two-family read-modify-write, not modelled cell by cell
					}
					parts = append(parts, c.Fam+"="+c.Val)
				}
				sort.Strings(parts)
				out.Row = strings.Join(parts, ",")
			}
		case "dropprefix":
			out.Code = code(w.DropRowRange(tbl, []byte(in.Key), false))
		case "dropall":
			out.Code = code(w.DropRowRange(tbl, nil, true))
		}
		return out
	}
	record1 := func(c int, in c14cIn) {
		evt++
		call := evt
		out := exec(in)
		evt++
		hist = append(hist, hop{c: c, in: in, out: out, call: call, ret: evt})
	}
	keys := []string{"a", "ab", "b"}
	gen := func(d *draws) c14cIn {
		seq++
		switch d.w(4, 3, 2, 1, 2, 2, 5, 4, 1, 1, 2) {
		case 10:
			k := keys[d.n(3)]
			return c14cIn{Kind: "rmw2", Key: k, Desc: fmt.Sprintf("ReadModifyWriteRow %q {append f1:a, append f2:a}", k)}
		case 0:
			return c14cIn{Kind: "create", Desc: "CreateTable t"}
		case 1:
			return c14cIn{Kind: "delete", Desc: "DeleteTable t"}
		case 2:
			return c14cIn{Kind: "get", Desc: "GetTable t"}
		case 3:
			return c14cIn{Kind: "list", Desc: "ListTables"}
		case 4:
			return c14cIn{Kind: "addf2", Desc: "Modify{create f2}"}
		case 5:
			return c14cIn{Kind: "dropf2", Desc: "Modify{drop f2}"}
		case 6:
			k, f := keys[d.n(3)], []string{"f1", "f1", "f2"}[d.n(3)]
			v := fmt.Sprintf("v%d", seq)
			return c14cIn{Kind: "mutate", Key: k, Fam: f, Val: v, Desc: fmt.Sprintf("MutateRow %q %s=%s", k, f, v)}
		case 7:
			k := keys[d.n(3)]
			return c14cIn{Kind: "read", Key: k, Desc: fmt.Sprintf("ReadRow %q", k)}
		case 8:
			p := []string{"a", "ab", "b"}[d.n(3)]
			return c14cIn{Kind: "dropprefix", Key: p, Desc: fmt.Sprintf("DropRowRange prefix %q", p)}
		default:
			return c14cIn{Kind: "dropall", Desc: "DropRowRange all"}
		}
	}
	if preCreate {
		record1(90, c14cIn{Kind: "create", Desc: "CreateTable t (setup)"})
		record1(90, c14cIn{Kind: "mutate", Key: "a", Fam: "f1", Val: "v0", Desc: `MutateRow "a" f1=v0 (setup)`})
	}
	plans := make([][]c14cIn, nClients)
	shape := cfg.Intn(5)
	if r.Tier == "quick" && r.Index%16 < 6 {
		shape = 0
	}
	if shape == 4 {
		// directed: the table has two families; one client drops the second while another
		// sends a read-modify-write that names both
		if !preCreate {
			record1(90, c14cIn{Kind: "create", Desc: "CreateTable t (setup)"})
		}
		record1(90, c14cIn{Kind: "addf2", Desc: "Modify{create f2} (setup)"})
		r.Probe("c14.rmw_vs_family_drop")
	}
	for c := range plans {
		ps := r.T.S(fmt.Sprintf("prog.%d", c))
		for i := 0; i < 4; i++ {
			d := record(ps, 8)
			in := gen(d)
			if shape == 0 && i == 0 {
				// directed: every client starts with CreateTable of the same name
				in = c14cIn{Kind: "create", Desc: "CreateTable t"}
			}
			if shape == 4 && i == 0 && c == 0 {
				in = c14cIn{Kind: "rmw2", Key: "a", Desc: `ReadModifyWriteRow "a" {append f1:a, append f2:a}`}
			}
			if shape == 4 && i == 0 && c == 1 {
				in = c14cIn{Kind: "dropf2", Desc: "Modify{drop f2}"}
			}
			if i < nOps {
				plans[c] = append(plans[c], in)
			}
		}
	}
	if shape == 0 {
		r.Probe("c14.concurrent_creates")
	}
	s := r.NewSched()
	s.Budget = 200000
	for c := range plans {
		c := c
		s.Go(fmt.Sprintf("c%d", c), func() {
			for _, in := range plans[c] {
				if r.Failed() {
					return
				}
				record1(c, in)
			}
		})
	}
	v := s.Run()
	r.FinishSched(s, v)
	if r.Failed() {
		return
	}
	// final state, read sequentially
	record1(99, c14cIn{Kind: "list", Desc: "final ListTables"})
	record1(99, c14cIn{Kind: "get", Desc: "final GetTable"})
	for _, k := range keys {
		record1(99, c14cIn{Kind: "read", Key: k, Desc: fmt.Sprintf("final ReadRow %q", k)})
	}
	if rr := w.ReadRow(parent+"/tables/keep", "k"); rr.Err != nil || len(rr.Rows) != 1 || len(rr.Rows[0].Cells) != 1 || rr.Rows[0].Cells[0].Val != "kept" {
		r.Fail("bystander-disturbed", "", "the untouched table 'keep' no longer serves its row: %v %v", rr.Err, rr.Rows)
		return
	}
	overlap := false
	var ops []porcupine.Operation
	for i, h := range hist {
		ops = append(ops, porcupine.Operation{ClientId: h.c, Input: h.in, Call: h.call, Output: h.out, Return: h.ret})
		r.Mix(fmt.Sprintf("%s>%d%s%v%s|", h.in.Kind, h.out.Code, h.out.Fams, h.out.Has, h.out.Row))
		r.Hist(map[string]interface{}{"client": h.c, "op": h.in.Desc, "call": h.call, "ret": h.ret, "code": h.out.Code.String(), "fams": h.out.Fams, "listed": h.out.Has, "row": h.out.Row})
		for j := range hist {
			if i != j && h.c != hist[j].c && h.call < hist[j].ret && hist[j].call < h.ret {
				overlap = true
			}
		}
	}
	if overlap {
		r.Probe("c14.overlapping_admin_ops")
	}
	r.Sample = map[string]interface{}{"mode": "concurrent", "engine": engine, "clients": nClients, "ops_each": nOps, "shape": shape, "steps": s.Steps, "preemptions": s.Pre}
	switch porcupine.CheckOperationsTimeout(c14ConcModel(), ops, 30*time.Second) {
	case porcupine.Ok:
		r.Probe("c14.porcupine_ok")
	case porcupine.Unknown:
		r.Probe("c14.porcupine_unknown")
	case porcupine.Illegal:
		var lines []string
		for _, h := range hist {
			lines = append(lines, fmt.Sprintf("  [%d,%d] client %d: %s -> %s fams=%q listed=%v row=%q", h.call, h.ret, h.c, h.in.Desc, h.out.Code, h.out.Fams, h.out.Has, h.out.Row))
		}
		r.Fail("registry-non-linearizable", "", "history of table %s has no serial explanation (engine %s):\n%s", shortTable(tbl), engine, joinLines(lines))
	}
}
