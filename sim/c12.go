package main

import (
	"fmt"
	"strings"

	btpb "cloud.google.com/go/bigtable/apiv2/bigtablepb"
	"google.golang.org/grpc/codes"
)

// C12: CheckAndMutateRow applies exactly the branch its predicate selects.

func init() {
	register(&PropDef{
		ID: "C12", Level: "exploration", Quick: 24000, Thorough: 400000, QuickCap: 100,
		Rule:   "each run = one engine, a drawn server clock, 2-25 steps on 3 rows: mutations that evolve the row state, then CheckAndMutateRow with a predicate from the C05 filter generator (trees up to depth 2 incl. ones that strip every cell, offsets past the end, invalid arguments; or no predicate) and true/false mutation lists (valid, invalid at position k, empty); oracles: (1) metamorphic - predicate_matched equals 'ReadRows with the same filter restricted to that row returns a cell' evaluated in the same state, (2) the independent evaluator agrees, (3) exactly the selected list is applied per the data model and nothing else changes (full read-back), invalid predicate or selected mutation => error and row unchanged; distinct = hash of (engine, predicate shapes, branch outcomes); non-trivial = at least one CAM whose predicate is a composite or which selected the false branch",
		Real:   []string{"bttest CheckAndMutateRow, filterRow, applyMutations, ReadRows", "all engines"},
		Stub:   []string{"gRPC transport", "server clock"},
		Assume: []string{"row-sample filters are not used in predicates (the metamorphic read would draw differently)", "error codes are not compared"},
		Run:    runC12,
	})
	expectedProbes["C12"] = []string{"c12.matched_true", "c12.matched_false", "c12.no_predicate", "c12.pred_strips_all", "c12.invalid_predicate", "c12.invalid_selected_branch", "c12.invalid_unselected_branch", "c12.absent_row", "c12.version_sensitive_predicate"}
}

func runC12(r *Run) {
	cfg := r.T.S("cfg")
	engine := pickEngine(r, cfg)
	nSteps := 2 + cfg.Intn(24)
	clk := NewClock(1_700_000_000_000_456, 1_700_000_000_000_000_000)
	w := NewBTWorld(r, engine, clk, "")
	defer w.Destroy()
	const tbl = "projects/p/instances/i/tables/t"
	model := newBTModel()
	create := btOp{Kind: "CreateTable", Parent: "projects/p/instances/i", TableID: "t", Fams: map[string]*btapbGc{"f1": nil, "f2": nil}}
	if k, msg := model.step(create, execOp(w, create), clk.ServerUs); k != "" {
		r.Fail(k, "", "%s", msg)
		return
	}
	gen := &btGen{fams: []string{"f1", "f2"}, unknown: "nofam"}
	ps := r.T.S("prog.0")
	rows := []string{"r", "r\x00", "s"}
	r.Mix(engine)
	check := func(op btOp) (btResp, bool) {
		resp := execOp(w, op)
		r.Hist(map[string]interface{}{"op": op.String(), "clock": clk.ServerUs, "resp": resp})
		if k, msg := model.step(op, resp, clk.ServerUs); k != "" {
			r.Fail(k, "", "%s", msg)
			return resp, false
		}
		return resp, true
	}
	for i := 0; i < nSteps && !r.Failed(); i++ {
		clockStep(r, clk, true)
		d := record(ps, 420)
		key := rows[d.w(4, 2, 1)]
		if d.w(2, 3) == 0 {
			if _, ok := check(btOp{Kind: "MutateRow", Table: tbl, Key: key, Muts: gen.mutations(d, 3, false)}); !ok {
				return
			}
			continue
		}
		// the row as stored now (cell order of the unfiltered read)
		rr := w.ReadRow(tbl, key)
		if rr.Err != nil || rr.Bad != nil {
			r.Fail("read-failed", "", "%v %v", rr.Err, rr.Bad)
			return
		}
		var obs *ORow
		if len(rr.Rows) == 1 {
			obs = &rr.Rows[0]
		} else {
			r.Probe("c12.absent_row")
		}
		var pred *btpb.RowFilter
		if d.n(6) != 0 {
			base := []ORow{}
			if obs != nil {
				base = append(base, *obs)
			}
			fg := &filterGen{rows: base, fams: []string{"f1", "f2"}, maxDepth: 2, invalid: true, sample: false}
			pred = fg.tree(d, 0, true)
			if obs != nil && d.n(5) == 4 {
				if vp := c12VersionPredicate(d, obs); vp != nil {
					pred = vp
					r.Probe("c12.version_sensitive_predicate")
				}
			}
		} else {
			r.Probe("c12.no_predicate")
		}
		tm := gen.mutations(d, 2, true)
		fm := gen.mutations(d, 2, true)
		op := btOp{Kind: "CAM", Table: tbl, Key: key, Pred: pred, TrueM: tm, FalseM: fm, Obs: obs}
		// (1) metamorphic oracle, evaluated in the same state
		var readMatched, readFailed bool
		if pred != nil {
			fr := w.ReadRows(&btpb.ReadRowsRequest{TableName: tbl, Filter: pred, Rows: &btpb.RowSet{RowKeys: [][]byte{[]byte(key)}}})
			readFailed = fr.Err != nil
			readMatched = len(fr.Rows) > 0
			if obs != nil && !readFailed && !readMatched {
				r.Probe("c12.pred_strips_all")
			}
		}
		before := model.Tables[tbl].row(key).clone()
		resp, ok := check(op)
		if !ok {
			return
		}
		// An invalid predicate fails the request also when the row holds no cell or no cell
		// reaches the invalid node (the model's CAM step demands it since repair "filters are
		// validated before a row is looked at").
		if pred != nil && c12RootInvalid(pred) && obs == nil {
			r.Probe("c12.invalid_predicate_on_absent_row")
		}
		r.Mix(filterShape(pred) + fmt.Sprint(resp.Code == codes.OK, resp.Matched))
		if pred != nil && resp.ok() {
			if readFailed {
				r.Fail("cam-vs-read", "", "%s succeeded, but ReadRows with the same filter on the same row failed", op)
				return
			}
			if resp.Matched != readMatched {
				r.Fail("cam-vs-read", "", "%s: predicate_matched=%v, but ReadRows with the same filter restricted to that row returns a cell: %v", op, resp.Matched, readMatched)
				return
			}
		}
		if resp.ok() {
			if resp.Matched {
				r.Probe("c12.matched_true")
			} else {
				r.Probe("c12.matched_false")
				r.nontrivial = true
			}
			other := tm
			if resp.Matched {
				other = fm
			}
			if o := model.Tables[tbl].applyMutations(before, other, clk.ServerUs); o.err != nil {
				r.Probe("c12.invalid_unselected_branch")
			}
		} else {
			if pred != nil && staticInvalid(pred) {
				r.Probe("c12.invalid_predicate")
			} else {
				r.Probe("c12.invalid_selected_branch")
			}
		}
		if len(filterShape(pred)) > 3 {
			r.nontrivial = true
		}
		// nothing else changes: read everything back
		for _, k := range rows {
			if _, ok := check(btOp{Kind: "ReadRow", Table: tbl, Key: k}); !ok {
				return
			}
		}
	}
	if !r.Failed() {
		check(btOp{Kind: "ReadAll", Table: tbl})
	}
	r.Sample = map[string]interface{}{"engine": engine, "steps": nSteps}
}

// c12RootInvalid: the root node of the filter is itself invalid (a leaf with a bad argument, or a
// chain / interleave with fewer than two members).
func c12RootInvalid(f *btpb.RowFilter) bool {
	switch x := f.Filter.(type) {
	case *btpb.RowFilter_Chain_:
		return len(x.Chain.Filters) < 2
	case *btpb.RowFilter_Interleave_:
		return len(x.Interleave.Filters) < 2
	case *btpb.RowFilter_Condition_:
		return false
	}
	// a leaf: invalid for certain (not one of the arguments the statement leaves open)
	e := &fEval{}
	e.eval(f, "k", []OCell{{Fam: "f1", Qual: "q", Ts: 1000, Val: "v"}})
	return e.required
}

// c12VersionPredicate: "the newest version(s) of a column equal v" and its relatives - a
// count-sensitive filter in front of (or behind) a selective one, aimed at a column that holds
// several versions, with the selective filter matching an OLDER version only (or the newest only).
// Compare-and-swap on the newest value is what such predicates are used for.
func c12VersionPredicate(d *draws, obs *ORow) *btpb.RowFilter {
	type col struct{ fam, qual string }
	byCol := map[col][]OCell{}
	var order []col
	for _, c := range obs.Cells {
		k := col{c.Fam, c.Qual}
		if _, ok := byCol[k]; !ok {
			order = append(order, k)
		}
		byCol[k] = append(byCol[k], c)
	}
	var multi []col
	for _, k := range order {
		if len(byCol[k]) >= 2 {
			multi = append(multi, k)
		}
	}
	if len(multi) == 0 {
		return nil
	}
	cells := byCol[multi[d.n(len(multi))]]
	target := cells[d.n(len(cells))] // cells[0] is the newest version
	var sel *btpb.RowFilter
	if d.n(2) == 0 && !strings.ContainsAny(target.Val, "\\.+*?()|[]{}^$\n") && len(target.Val) < 64 {
		sel = &btpb.RowFilter{Filter: &btpb.RowFilter_ValueRangeFilter{ValueRangeFilter: &btpb.ValueRange{StartValue: &btpb.ValueRange_StartValueClosed{StartValueClosed: []byte(target.Val)}, EndValue: &btpb.ValueRange_EndValueClosed{EndValueClosed: []byte(target.Val)}}}}
	} else {
		sel = &btpb.RowFilter{Filter: &btpb.RowFilter_TimestampRangeFilter{TimestampRangeFilter: &btpb.TimestampRange{StartTimestampMicros: target.Ts, EndTimestampMicros: target.Ts + 1000}}}
	}
	lim := &btpb.RowFilter{Filter: &btpb.RowFilter_CellsPerColumnLimitFilter{CellsPerColumnLimitFilter: int32(1 + d.n(2))}}
	switch d.n(4) {
	case 0:
		lim = &btpb.RowFilter{Filter: &btpb.RowFilter_CellsPerRowLimitFilter{CellsPerRowLimitFilter: int32(1 + d.n(3))}}
	case 1:
		lim = &btpb.RowFilter{Filter: &btpb.RowFilter_CellsPerRowOffsetFilter{CellsPerRowOffsetFilter: int32(1 + d.n(3))}}
	}
	fs := []*btpb.RowFilter{lim, sel}
	if d.n(4) == 3 {
		fs = []*btpb.RowFilter{sel, lim}
	}
	if d.n(3) == 2 {
		lit := &rx{kind: rxCat}
		for k := 0; k < len(target.Fam); k++ {
			lit.subs = append(lit.subs, &rx{kind: rxLit, b: target.Fam[k]})
		}
		fs = append([]*btpb.RowFilter{{Filter: &btpb.RowFilter_FamilyNameRegexFilter{FamilyNameRegexFilter: string(registerRx(lit))}}}, fs...)
	}
	return &btpb.RowFilter{Filter: &btpb.RowFilter_Chain_{Chain: &btpb.RowFilter_Chain{Filters: fs}}}
}
