package main

import (
	"fmt"

	btapb "cloud.google.com/go/bigtable/admin/apiv2/adminpb"
	btpb "cloud.google.com/go/bigtable/apiv2/bigtablepb"
	"google.golang.org/grpc/codes"
)

// C03: ReadRows row-set semantics, stream well-formedness, SampleRowKeys.

var c03Keys = []string{"a", "a\x00", "a\x00\x00", "ab", "b", "\x00", "\xff"}

const (
	c03Bound  = 15 // unset, or open/closed x 7 keys
	c03Range  = c03Bound * c03Bound
	c03Ranges = 1 + c03Range + c03Range*c03Range
	c03Space  = c03Ranges * 8 * 3 // x {no key, one of 7 keys} x engine
)

func init() {
	register(&PropDef{
		ID: "C03", Level: "exploration", Quick: 7200, Thorough: 21000, QuickCap: 110,
		Rule:   "row-set part: a table holding a drawn subset of the adversarial keys {a, a\\0, a\\0\\0, ab, b, \\0, \\xff} plus 0-400 filler rows with a drawn number of cells (results span 1..several messages); 60 RowSets per run from the finite space {<=2 ranges x bound in {unset, open, closed} x 7 keys} x {no key, one key} x engine = 1220424 items visited by seeded permutation (the thorough tier consumes it completely), plus random larger sets (duplicates, overlaps, adjacency, inverted); rows_limit in {0,1,2,5,10^6} and n/3, n/2, 3n/4, n-1, n for n stored rows; optionally a row-dropping filter; result compared with the row-set model and decoded with the ReadRows chunk state machine. sample part: SampleRowKeys after histories with deletes, family drops, rule-less read-modify-writes, with the sampler's draws taken from the rng stream; distinct = hash of (engine, row sets / shapes); non-trivial = a read whose result differs from the whole table",
		Real:   []string{"bttest ReadRows, validateRowRanges, mergeRowRanges/mergeSimpleRanges, chunkBuilder, SampleRowKeys, all engines' range iteration"},
		Stub:   []string{"gRPC stream (recording stream)", "the key sampler's random source (rng stream)"},
		Assume: []string{"empty row keys and empty-key bounds are not sent", "start == end with an open bound is an empty range, not an error"},
		Run:    runC03,
		Subspaces: func() map[string]int {
			return map[string]int{"c03.rowsets": c03Space}
		},
	})
	expectedProbes["C03"] = []string{"c03.multi_message", "c03.inverted_rejected", "c03.limit_cut", "c03.limit_with_dropping_filter", "c03.overlap", "c03.sampled_some", "c03.sample_after_family_drop", "c03.sample_after_empty_rmw", "c03.very_wide_row"}
}

func c03BoundOf(i int) mBound {
	if i == 0 {
		return mBound{}
	}
	i--
	return mBound{kind: 1 + i/7, key: c03Keys[i%7]}
}

func c03RowSet(idx int) mRowSet {
	var rs mRowSet
	k := idx % 8
	idx /= 8
	if k > 0 {
		rs.keys = []string{c03Keys[k-1]}
	}
	switch {
	case idx == 0:
	case idx <= c03Range:
		x := idx - 1
		rs.ranges = []mRange{{c03BoundOf(x / c03Bound), c03BoundOf(x % c03Bound)}}
	default:
		x := idx - 1 - c03Range
		a, b := x/c03Range, x%c03Range
		rs.ranges = []mRange{{c03BoundOf(a / c03Bound), c03BoundOf(a % c03Bound)}, {c03BoundOf(b / c03Bound), c03BoundOf(b % c03Bound)}}
	}
	return rs
}

func runC03(r *Run) {
	cfg := r.T.S("cfg")
	if cfg.Intn(4) == 3 || (r.Index >= 4 && r.Index < 8) {
		c03Sample(r, cfg)
		return
	}
	// every fourth of these runs sends unbounded ends as explicitly set, empty keys
	rowSetExplicitEmpty = (r.Index/3)%4 == 1
	defer func() { rowSetExplicitEmpty = false }()
	if rowSetExplicitEmpty {
		r.Probe("c03.unbounded_ends_sent_as_empty_keys")
	}
	perm := newPerm(c03Space/3, r.Master+3)
	engine := engines[r.Index%3]
	clk := NewClock(1_700_000_000_000_000, 1_700_000_000_000_000_000)
	w := NewBTWorld(r, engine, clk, "")
	defer w.Destroy()
	const tbl = "projects/p/instances/i/tables/t"
	if _, err := w.CreateTable("projects/p/instances/i", "t", map[string]*btapb.GcRule{"f1": nil, "f2": nil}); err != nil {
		r.Fail("setup", "", "%v", err)
		return
	}
	d := record(r.T.S("prog.0"), 32)
	// content: a subset of the adversarial keys + filler
	mt := newMTable()
	mt.Fams["f1"], mt.Fams["f2"] = nil, nil
	var entries []entryIn
	add := func(k string, cells int, withF2 bool) {
		var muts mutList
		for c := 0; c < cells; c++ {
			muts = append(muts, setCell("f1", fmt.Sprintf("q%03d", c/3), int64(1+c%3)*1000, "v"))
		}
		if withF2 {
			muts = append(muts, setCell("f2", "x", 1000, "w"))
		}
		entries = append(entries, entryIn{Key: k, Muts: muts})
		mt.Rows[k] = mt.applyMutations(mRow{}, muts, 0).row
	}
	sub := d.n(128)
	if d.n(3) == 0 {
		sub = 127
	}
	for i, k := range c03Keys {
		if sub&(1<<uint(i)) != 0 {
			add(k, 1+d.n(3), i%2 == 0)
		}
	}
	nFill := []int{0, 0, 5, 40, 400}[d.w(3, 2, 3, 2, 1)]
	cellsFill := []int{1, 3, 30}[d.w(3, 2, 2)]
	if r.Index < 3 {
		nFill, cellsFill = 120, 30 // directed: several messages on every engine
	}
	for i := 0; i < nFill; i++ {
		add(fmt.Sprintf("aa%04d", i), cellsFill, i%3 == 0) // between "a\0\0" and "ab"
	}
	if d.n(12) == 11 || r.Index == 3 {
		// one very wide row (thousands of cells, a size around a power of two or of ten): a
		// single row may span response messages, and must still arrive as one committed row
		wide := []int{1000, 1024, 2048, 4096, 8192}[d.n(5)] + d.n(3) - 1
		if r.Index == 3 {
			wide = 4096
		}
		add("aa-wide", wide, true)
		r.Probe("c03.very_wide_row")
	}
	if !c16Write(r, w, tbl, entries) {
		return
	}
	all := mt.render()
	dropF := &btpb.RowFilter{Filter: &btpb.RowFilter_FamilyNameRegexFilter{FamilyNameRegexFilter: string(registerRx(&rx{kind: rxCat, subs: []*rx{{kind: rxLit, b: 'f'}, {kind: rxLit, b: '2'}}}))}}
	dropF2 := &btpb.RowFilter{Filter: &btpb.RowFilter_CellsPerRowOffsetFilter{CellsPerRowOffsetFilter: 2}}
	r.Mix(engine)
	// limits: small constants, "no limit", and limits relative to the number of stored rows (so
	// that the cut falls after any number of response messages, wherever the server flushes)
	n := int64(len(all))
	limits := []int64{0, 1, 2, 5, 1000000, n / 2, n - 1, n, n * 3 / 4, n / 3}
	for i := range limits {
		if limits[i] < 0 {
			limits[i] = 0
		}
	}
	nItems := 60
	if nFill >= 400 {
		nItems = 12
	}
	check := func(rs mRowSet, limit int64, filter *btpb.RowFilter, what string) bool {
		req := &btpb.ReadRowsRequest{TableName: tbl, Rows: rs.toProto(), RowsLimit: limit, Filter: filter}
		resp := w.ReadRows(req)
		desc := fmt.Sprintf("ReadRows rows=%s limit=%d filter=%s (%s, engine %s, %d stored rows)", rowSetString(rs), limit, filterString(filter), what, engine, len(all))
		if resp.Bad != nil {
			r.Fail("malformed-stream", "", "%s: %v", desc, resp.Bad)
			return false
		}
		inverted := false
		for _, g := range rs.ranges {
			if g.inverted() {
				inverted = true
			}
		}
		if inverted {
			if codeOf(resp.Err) != codes.InvalidArgument {
				r.Fail("inverted-range-accepted", "", "%s: a range whose start exceeds its end must be rejected with InvalidArgument, got %v", desc, codeOf(resp.Err))
				return false
			}
			r.Probe("c03.inverted_rejected")
			return true
		}
		if resp.Err != nil {
			r.Fail("read-failed", "", "%s: %v", desc, resp.Err)
			return false
		}
		var want []ORow
		for _, row := range all {
			if !rs.contains(row.Key) {
				continue
			}
			out := row
			if filter != nil {
				fo := evalFilterRow(filter, row)
				if len(fo.outs) == 0 || len(fo.outs[0]) == 0 {
					continue // no output: does not count towards the limit
				}
				out = ORow{Key: row.Key, Cells: fo.outs[0]}
			}
			if limit > 0 && int64(len(want)) >= limit {
				r.Probe("c03.limit_cut")
				if filter != nil {
					r.Probe("c03.limit_with_dropping_filter")
				}
				break
			}
			want = append(want, out)
		}
		if resp.Msgs >= 2 {
			r.Probe("c03.multi_message")
		}
		if len(want) != len(all) {
			r.nontrivial = true
		}
		if err := compareRows(desc, resp.Rows, want, false); err != nil {
			r.Fail("rowset-mismatch", "", "%v", err)
			return false
		}
		return true
	}
	for k := 0; k < nItems && !r.Failed(); k++ {
		it := perm.at((r.Index/3)*60 + k)
		r.Visit("c03.rowsets", it*3+r.Index%3)
		rs := c03RowSet(it)
		dd := record(r.T.S("prog.0"), 4)
		limit := limits[dd.w(6, 2, 2, 1, 1, 1, 1, 1, 1, 1)]
		var f *btpb.RowFilter
		switch dd.n(6) {
		case 0:
			f = dropF
		case 1:
			f = dropF2
		}
		r.Mix(fmt.Sprintf("%d.%d", it, limit))
		if !check(rs, limit, f, "enumerated") {
			return
		}
	}
	// random larger sets
	for k := 0; k < 6 && !r.Failed(); k++ {
		dd := record(r.T.S("prog.0"), 40)
		var rs mRowSet
		nk, nr := dd.n(4), dd.n(5)
		for i := 0; i < 3; i++ {
			key := c03Keys[dd.n(7)]
			if dd.n(3) == 0 && nFill > 0 {
				key = fmt.Sprintf("aa%04d", dd.n(nFill))
			}
			if i < nk {
				rs.keys = append(rs.keys, key)
			}
		}
		for i := 0; i < 4; i++ {
			a, b := c03BoundOf(dd.n(15)), c03BoundOf(dd.n(15))
			if dd.n(3) == 0 && nFill > 0 {
				a = mBound{kind: 1 + dd.n(2), key: fmt.Sprintf("aa%04d", dd.n(nFill))}
			}
			if i < nr {
				rs.ranges = append(rs.ranges, mRange{a, b})
			}
		}
		if nr >= 2 {
			r.Probe("c03.overlap")
		}
		var f *btpb.RowFilter
		switch dd.n(4) {
		case 0:
			f = dropF
		case 1:
			f = dropF2
		}
		if !check(rs, limits[dd.n(10)], f, "random") {
			return
		}
	}
	r.Sample = map[string]interface{}{"engine": engine, "stored_rows": len(all), "filler": nFill, "cells_per_filler_row": cellsFill}
}

func c03Sample(r *Run, cfg *Stream) {
	engine := pickEngine(r, cfg)
	nOps := 3 + cfg.Intn(30)
	clk := NewClock(1_700_000_000_000_000, 1_700_000_000_000_000_000)
	simRng = r.T.S("rng")
	defer func() { simRng = nil }()
	gen := &btGen{fams: []string{"f1", "f2"}, unknown: "nofam"}
	const tbl = "projects/p/instances/i/tables/t"
	dropped := false
	emptyRMW := false
	spec := seqSpec{
		Engine: engine, NOps: nOps, FullEvery: 7,
		Tables: []btOp{{Kind: "CreateTable", Parent: "projects/p/instances/i", TableID: "t", Fams: map[string]*btapb.GcRule{"f1": nil, "f2": nil}}},
		Gen: func(d *draws, m *btModel, i int) btOp {
			key := btRowKeys[d.n(len(btRowKeys))]
			switch d.w(6, 2, 2, 2, 5, 1) {
			case 0:
				return btOp{Kind: "MutateRow", Table: tbl, Key: key, Muts: gen.mutations(d, 3, false)}
			case 1:
				return btOp{Kind: "MutateRow", Table: tbl, Key: key, Muts: mutList{{Mutation: &btpb.Mutation_DeleteFromRow_{DeleteFromRow: &btpb.Mutation_DeleteFromRow{}}}}}
			case 2:
				// drop a family (rows that only had this family lose all cells), or re-create it
				f := []string{"f1", "f2"}[d.n(2)]
				t := m.Tables[tbl]
				mod := &btapb.ModifyColumnFamiliesRequest_Modification{Id: f}
				if _, ok := t.Fams[f]; ok {
					mod.Mod = &btapb.ModifyColumnFamiliesRequest_Modification_Drop{Drop: true}
					dropped = true
				} else {
					mod.Mod = &btapb.ModifyColumnFamiliesRequest_Modification_Create{Create: &btapb.ColumnFamily{}}
				}
				return btOp{Kind: "Modify", Table: tbl, Mods: []*btapb.ModifyColumnFamiliesRequest_Modification{mod}}
			case 3:
				emptyRMW = true
				return btOp{Kind: "RMW", Table: tbl, Key: key, Rules: nil}
			case 4:
				if dropped {
					r.Probe("c03.sample_after_family_drop")
				}
				if emptyRMW {
					r.Probe("c03.sample_after_empty_rmw")
				}
				return btOp{Kind: "Sample", Table: tbl}
			default:
				return btOp{Kind: "ReadAll", Table: tbl}
			}
		},
		AfterOp: func(op btOp, resp btResp, before, after *btModel) {
			if op.Kind == "Sample" && len(resp.Samples) > 1 {
				r.Probe("c03.sampled_some")
			}
		},
	}
	res := runBTSeq(r, spec, clk)
	r.Sample = map[string]interface{}{"mode": "sample", "engine": engine, "requests": len(res.Shapes), "first_ops": firstN(res.Shapes, 10)}
}
