package main

import (
	"context"
	"fmt"
	"net/url"
	"sort"
	"strings"
	"time"

	"github.com/anishathalye/porcupine"
)

// C07: concurrent operations on one GCS object are atomic and serialisable.

func init() {
	register(&PropDef{
		ID: "C07", Level: "exploration", Quick: 48000, Thorough: 800000, QuickCap: 110,
		Rule:   "each run = one store, 2-4 client tasks x 1-4 HTTP requests on 1-2 object names: conditional and unconditional uploads (media, multipart, resumable), patches conditioned on metageneration, deletes, compose and copy (same bucket and across buckets) into the contended name (static sources), copies OF the contended object to fresh names (a read of one version: attributes and bytes must belong together), metadata and media reads; the seeded scheduler interleaves them at every store access (Store seam), every internal step of the per-object lock map and the file store's write steps; 0-1 request contexts are cancelled, at a scheduled instant or inside one of the ctx.Err() calls the code makes; the history (global event stamps) is checked per object with porcupine against the object model with generations as opaque fresh tokens, plus the single-winner invariant for N writers conditioned on one generation; distinct = trace + response hash; non-trivial = at least one preemption",
		Real:   []string{"gcsemu handlers through the real mux, gcsutil.TransientLockMap, memstore (btree under its mutexes), filestore (content, mtime, sidecar as separate system calls)"},
		Stub:   []string{"HTTP connections (recorder)", "Go channel blocking in the lock map (wait-until)", "wall clock (strictly increasing, so generations are distinct; the stalled clock belongs to C10)"},
		Assume: []string{"a resumable upload is one operation whose window spans all its requests", "listings are not part of this workload", "porcupine Unknown is counted, never reported"},
		Run:    runC07,
	})
	expectedProbes["C07"] = []string{"c07.same_generation_writers", "c07.patch_race", "c07.delete_vs_upload", "c07.reader_among_writers", "c07.lock_waited", "c07.cancel_fired", "c07.porcupine_ok", "c07.compose_vs_upload", "c07.cross_bucket_copy", "c07.append_by_compose", "c07.cancel_inside_err_call", "c07.copy_of_contended_source", "c07.restart_after_race_equal"}
}

type c07In struct {
	Kind    string // upload patch delete compose copy getmeta listmeta media
	Op      gOp
	Name    string
	Summary string // object summary the op would create (uploads, compose, copy)
	Raw     string // the bytes the op would store (uploads, compose, copy); append: the bytes appended
	Desc    string
	Cancel  bool
}

type c07Out struct {
	Status  int
	Gen     int64
	Metagen int64
	Proj    string // projection of the returned metadata (no generation numbers)
	BodyH   string // media: hash of the body
	HdrGen  string
	HdrMeta string
	Err     string
}

type c07State struct {
	Exists  bool
	Gen     int64
	Metagen int64
	MaxGen  int64
	Sum     string // ctype|meta|cc|cd|cl
	Content string // size|md5|contenthash
	Raw     string // the bytes (determined by Content; not part of the key)
}

func (s c07State) key() string {
	return fmt.Sprintf("%v|%d|%d|%d|%s|%s", s.Exists, s.Gen, s.Metagen, s.MaxGen, s.Sum, s.Content)
}

func objSum(o *gObj) (sum, content string) {
	var ks []string
	for k, v := range o.Metadata {
		ks = append(ks, k+"="+v)
	}
	sort.Strings(ks)
	return fmt.Sprintf("%s|%v|%s|%s|%s", o.ContentType, ks, o.CC, o.CD, o.CL), fmt.Sprintf("%d|%s|%x", len(o.Content), o.Md5, hashString(string(o.Content)))
}

func metaProj(g *gMeta) (sum, sizeMd5 string) {
	if g == nil {
		return "<nil>", "<nil>"
	}
	var ks []string
	for k, v := range g.Metadata {
		ks = append(ks, k+"="+v)
	}
	sort.Strings(ks)
	return fmt.Sprintf("%s|%v|%s|%s|%s", g.ContentType, ks, g.CacheControl, g.ContentDisposition, g.ContentLang), fmt.Sprintf("%d|%s", g.Size, g.Md5)
}

func c07Model(states map[string]c07State) porcupine.Model {
	get := func(k string) c07State { return states[k] }
	put := func(s c07State) string {
		k := s.key()
		states[k] = s
		return k
	}
	init := put(c07State{})
	return porcupine.Model{
		Init: func() interface{} { return init },
		Step: func(state, input, output interface{}) (bool, interface{}) {
			st := get(state.(string))
			in := input.(c07In)
			out := output.(c07Out)
			same := state
			var cur *gObj
			if st.Exists {
				cur = &gObj{Gen: st.Gen, Metagen: st.Metagen}
			}
			if in.Cancel && out.Status >= 500 {
				return true, same // gave up while queued: no effect
			}
			condOutcome := func(c gConds) (pass bool, okStatus bool) {
				cv := evalConds(c, cur)
				if cv.junk {
					return false, out.Status == 400
				}
				if !cv.pass {
					return false, cv.allowed[out.Status]
				}
				return true, true
			}
			sizeMd5 := func(content string) string { return content[:strings.LastIndex(content, "|")] }
			switch in.Kind {
			case "upload", "compose", "copy":
				conds := in.Op.Up.Conds
				if in.Kind == "compose" {
					conds = in.Op.Conds
				} else if in.Kind == "copy" {
					conds = gConds{}
				}
				pass, okst := condOutcome(conds)
				if !pass {
					return okst, same
				}
				if !ok2xx(out.Status) {
					return false, same
				}
				parts := strings.SplitN(in.Summary, "\x00", 2)
				if out.Gen <= st.MaxGen || out.Metagen != 1 {
					return false, same
				}
				if out.Proj != parts[0]+"\x00"+sizeMd5(parts[1]) {
					return false, same
				}
				return true, put(c07State{Exists: true, Gen: out.Gen, Metagen: 1, MaxGen: out.Gen, Sum: parts[0], Content: parts[1], Raw: in.Raw})
			case "append":
				// compose whose first source is the destination itself: the new content is the
				// content at the instant the request takes effect plus the appended source
				if !st.Exists {
					return out.Status == 404, same
				}
				if !ok2xx(out.Status) {
					return false, same
				}
				raw := st.Raw + in.Raw
				a, b := objSum(&gObj{Content: []byte(raw), ContentType: "text/plain", Metadata: map[string]string{}})
				if out.Gen <= st.MaxGen || out.Metagen != 1 || out.Proj != a+"\x00"+sizeMd5(b) {
					return false, same
				}
				return true, put(c07State{Exists: true, Gen: out.Gen, Metagen: 1, MaxGen: out.Gen, Sum: a, Content: b, Raw: raw})
			case "patch":
				pass, okst := condOutcome(in.Op.Conds)
				if !st.Exists {
					return out.Status == 404 || (!pass && okst), same
				}
				if !pass {
					return okst, same
				}
				if !ok2xx(out.Status) {
					return false, same
				}
				// merge: the patch sets metadata key "p" -> value and nothing else
				o := &gObj{Metadata: map[string]string{}}
				sp := strings.SplitN(st.Sum, "|", 2)
				o.ContentType = sp[0]
				// rebuild from the summary is awkward; the patched summary is carried by the op
				ns := patchSum(st.Sum, in.Op.Body)
				if out.Metagen != st.Metagen+1 || out.Gen != st.Gen {
					return false, same
				}
				if out.Proj != ns+"\x00"+sizeMd5(st.Content) {
					return false, same
				}
				n := st
				n.Metagen++
				n.Sum = ns
				return true, put(n)
			case "delete":
				pass, okst := condOutcome(in.Op.Conds)
				if !st.Exists {
					return out.Status == 404 || (!pass && okst), same
				}
				if !pass {
					return okst, same
				}
				if !ok2xx(out.Status) {
					return false, same
				}
				return true, put(c07State{MaxGen: st.MaxGen})
			case "copyout":
				// a copy of this object to a name nobody else touches is a read of this object:
				// the copy carries the attributes and the bytes of ONE version
				if !st.Exists {
					return out.Status == 404, same
				}
				return ok2xx(out.Status) && out.Metagen == 1 && out.Proj == st.Sum+"\x00"+sizeMd5(st.Content), same
			case "getmeta", "listmeta":
				if !st.Exists {
					return out.Status == 404, same
				}
				return out.Status == 200 && out.Gen == st.Gen && out.Metagen == st.Metagen && out.Proj == st.Sum+"\x00"+sizeMd5(st.Content), same
			case "media":
				if !st.Exists {
					return out.Status == 404, same
				}
				ch := st.Content[strings.LastIndex(st.Content, "|")+1:]
				return out.Status == 200 && out.BodyH == ch && out.HdrGen == fmt.Sprint(st.Gen) && out.HdrMeta == fmt.Sprint(st.Metagen), same
			}
			return false, same
		},
	}
}

// patchSum applies a {"metadata":{k:v}} patch to a summary "ctype|[k=v ...]|cc|cd|cl".
func patchSum(sum string, body map[string]interface{}) string {
	parts := strings.SplitN(sum, "|", 3)
	inner := strings.TrimSuffix(strings.TrimPrefix(parts[1], "["), "]")
	kv := map[string]string{}
	if inner != "" {
		for _, p := range strings.Split(inner, " ") {
			x := strings.SplitN(p, "=", 2)
			kv[x[0]] = x[1]
		}
	}
	if md, ok := body["metadata"].(map[string]string); ok {
		for k, v := range md {
			kv[k] = v
		}
	}
	var ks []string
	for k, v := range kv {
		ks = append(ks, k+"="+v)
	}
	sort.Strings(ks)
	return fmt.Sprintf("%s|%v|%s", parts[0], ks, parts[2])
}

func runC07(r *Run) {
	cfg := r.T.S("cfg")
	store := []string{"mem", "file"}[cfg.Intn(2)]
	nClients := 2 + cfg.Intn(3)
	nOps := 1 + cfg.Intn(4)
	nNames := 1 + cfg.Intn(2)
	shape := cfg.Intn(10)
	if r.Index < 12 {
		shape = r.Index % 6
		store = []string{"mem", "file"}[(r.Index/6)%2]
	}
	withCancel := cfg.Intn(4) == 3
	names := []string{"obj.txt", "dir/o2.txt"}[:nNames]
	clk := NewClock(0, 1_700_000_000_000_000_000)
	wallIncreasing(r, clk)
	w := NewGCSWorld(r, store, "", clk)
	defer w.Destroy()
	for _, b := range gBuckets {
		w.CreateBucket(b)
	}
	// static sources for compose / copy
	srcA := upSpec{Bucket: "bkt", Name: "srcA", Content: []byte("AAAA"), ContentType: "text/plain"}
	srcB := upSpec{Bucket: "bkt", Name: "srcB", Content: []byte("BB"), ContentType: "text/plain", Metadata: map[string]string{"from": "b"}}
	srcX := upSpec{Bucket: "other-bucket", Name: "srcX", Content: []byte("XXXXX"), ContentType: "text/x-other", Metadata: map[string]string{"from": "x"}}
	w.UploadMedia(srcA)
	w.UploadMultipart(srcB)
	w.UploadMultipart(srcX)
	var evt int64
	type hop struct {
		c    int
		in   c07In
		out  c07Out
		call int64
		ret  int64
	}
	var hist []hop
	seq, copySeq := 0, 0
	mkUpload := func(name string, conds gConds, proto string) c07In {
		seq++
		// content type, metadata and bytes all carry the version number, so a mixture of two
		// versions (attributes of one, bytes of another) matches no state of the model
		u := upSpec{Bucket: "bkt", Name: name, Content: []byte(fmt.Sprintf("content-%d", seq)), ContentType: fmt.Sprintf("text/x-v%d", seq), Conds: conds}
		if proto != "media" {
			u.Metadata = map[string]string{"w": fmt.Sprint(seq)}
		}
		op := gOp{Kind: "Upload", Proto: proto, Up: u}
		if proto == "resumable" {
			op.Resum = &resumPlan{KnownTotal: true, Chunks: []int{4}}
		}
		a, b := objSum(objFromUpload(u))
		return c07In{Kind: "upload", Op: op, Name: name, Summary: a + "\x00" + b, Raw: string(u.Content), Desc: op.String()}
	}
	// sequential setup for the directed shapes: an initial version with a known generation
	var g0 int64
	setup := func(name string) {
		in := mkUpload(name, gConds{}, "media")
		resp := execG(w, in.Op)
		evt++
		call := evt
		evt++
		out := c07Out{Status: resp.Status}
		if resp.Meta != nil {
			out.Gen, out.Metagen = resp.Meta.Gen, resp.Meta.Metagen
			a, b := metaProj(resp.Meta)
			out.Proj = a + "\x00" + b
			g0 = resp.Meta.Gen
		}
		hist = append(hist, hop{c: 90, in: in, out: out, call: call, ret: evt})
	}
	plans := make([][]c07In, nClients)
	protos := []string{"media", "multipart", "resumable"}
	switch shape {
	case 0: // N writers conditioned on non-existence
		for c := range plans {
			plans[c] = []c07In{mkUpload(names[0], gConds{GenMatch: ip(0)}, protos[c%3])}
		}
		r.Probe("c07.same_generation_writers")
	case 1: // N writers conditioned on the same generation
		setup(names[0])
		for c := range plans {
			plans[c] = []c07In{mkUpload(names[0], gConds{GenMatch: ip(g0)}, protos[c%3])}
		}
		r.Probe("c07.same_generation_writers")
	case 2: // patches conditioned on one metageneration
		setup(names[0])
		for c := range plans {
			op := gOp{Kind: "Patch", Bucket: "bkt", Name: names[0], Conds: gConds{MetaMatch: ip(1)}, Body: map[string]interface{}{"metadata": map[string]string{"p": fmt.Sprint(c)}}}
			plans[c] = []c07In{{Kind: "patch", Op: op, Name: names[0], Desc: op.String()}}
		}
		r.Probe("c07.patch_race")
	case 3: // delete vs conditional upload vs reader
		setup(names[0])
		for c := range plans {
			switch c % 3 {
			case 0:
				op := gOp{Kind: "Delete", Bucket: "bkt", Name: names[0]}
				plans[c] = []c07In{{Kind: "delete", Op: op, Name: names[0], Desc: op.String()}}
			case 1:
				plans[c] = []c07In{mkUpload(names[0], gConds{GenMatch: ip(g0)}, "multipart")}
			default:
				op := gOp{Kind: "Media", Bucket: "bkt", Name: names[0]}
				plans[c] = []c07In{{Kind: "media", Op: op, Name: names[0], Desc: op.String()}, {Kind: "getmeta", Op: gOp{Kind: "Get", Bucket: "bkt", Name: names[0]}, Name: names[0], Desc: "GetMeta"}}
			}
		}
		r.Probe("c07.delete_vs_upload")
	}
	if shape >= 4 {
		for c := range plans {
			ps := r.T.S(fmt.Sprintf("prog.%d", c))
			for i := 0; i < 4; i++ {
				d := record(ps, 24)
				name := names[d.n(nNames)]
				var in c07In
				switch d.w(5, 3, 2, 2, 2, 3, 3, 2) {
				case 7:
					copySeq++
					op := gOp{Kind: "Copy", Bucket: "bkt", Name: name, DstB: "other-bucket", DstN: fmt.Sprintf("copy-of-%d", copySeq)}
					in = c07In{Kind: "copyout", Op: op, Name: name, Desc: op.String()}
					r.Probe("c07.copy_of_contended_source")
				case 0:
					g := &gGen{}
					var conds gConds
					switch d.n(4) {
					case 1:
						conds.GenMatch = ip(0)
					case 2:
						conds.GenNotMatch = ip(12345)
					case 3:
						conds.MetaMatch = ip(1)
					}
					_ = g
					in = mkUpload(name, conds, protos[d.n(3)])
				case 1:
					op := gOp{Kind: "Patch", Bucket: "bkt", Name: name, Body: map[string]interface{}{"metadata": map[string]string{"p": fmt.Sprintf("%d.%d", c, i)}}}
					if d.n(2) == 1 {
						op.Conds.MetaMatch = ip(int64(1 + d.n(2)))
					}
					if d.n(3) == 2 {
						// a client writing back a resource it read earlier: the body names the
						// (by now stale) metageneration, which is not the client's to set
						op.Body["metageneration"] = "1"
						r.Probe("c07.patch_body_names_stale_metageneration")
					}
					in = c07In{Kind: "patch", Op: op, Name: name, Desc: op.String()}
				case 2:
					op := gOp{Kind: "Delete", Bucket: "bkt", Name: name}
					in = c07In{Kind: "delete", Op: op, Name: name, Desc: op.String()}
				case 3:
					if d.n(3) == 2 {
						// append by compose: the destination is its own first source
						op := gOp{Kind: "Compose", Bucket: "bkt", Name: name, Srcs: []string{name, "srcB"}, DstMeta: map[string]interface{}{"contentType": "text/plain"}}
						in = c07In{Kind: "append", Op: op, Name: name, Raw: "BB", Desc: op.String()}
						r.Probe("c07.append_by_compose")
						break
					}
					op := gOp{Kind: "Compose", Bucket: "bkt", Name: name, Srcs: []string{"srcA", "srcB", "srcA"}[:1+d.n(3)], DstMeta: map[string]interface{}{"contentType": "text/plain"}}
					content := ""
					for _, s := range op.Srcs {
						content += map[string]string{"srcA": "AAAA", "srcB": "BB"}[s]
					}
					a, b := objSum(&gObj{Content: []byte(content), ContentType: "text/plain", Metadata: map[string]string{}})
					in = c07In{Kind: "compose", Op: op, Name: name, Summary: a + "\x00" + b, Raw: content, Desc: op.String()}
					r.Probe("c07.compose_vs_upload")
				case 4:
					src := []upSpec{srcA, srcB, srcX}[d.n(3)] // srcX: copy across buckets
					if src.Bucket != "bkt" {
						r.Probe("c07.cross_bucket_copy")
					}
					op := gOp{Kind: "Copy", Bucket: src.Bucket, Name: src.Name, DstB: "bkt", DstN: name}
					a, b := objSum(objFromUpload(src))
					in = c07In{Kind: "copy", Op: op, Name: name, Summary: a + "\x00" + b, Raw: string(src.Content), Desc: op.String()}
				case 5:
					op := gOp{Kind: "Get", Bucket: "bkt", Name: name}
					in = c07In{Kind: "getmeta", Op: op, Name: name, Desc: op.String()}
					if d.n(3) == 0 {
						// the same read through a listing (prefix = the name): the item, if listed,
						// must be one version of the object like any other metadata read
						in = c07In{Kind: "listmeta", Op: op, Name: name, Desc: fmt.Sprintf("List bkt prefix=%q -> item %q", name, name)}
						r.Probe("c07.listing_as_a_read")
					}
				default:
					op := gOp{Kind: "Media", Bucket: "bkt", Name: name, Form: d.n(3)}
					in = c07In{Kind: "media", Op: op, Name: name, Desc: op.String()}
					r.Probe("c07.reader_among_writers")
				}
				if i < nOps {
					plans[c] = append(plans[c], in)
				}
			}
		}
	}
	// one request may have its context cancelled at a scheduled instant
	var cancelCtx context.Context
	var cancel context.CancelFunc
	cancelClient, cancelIdx := -1, 0
	cancelAtErr := false
	if withCancel {
		cancelCtx, cancel = context.WithCancel(context.Background())
		defer cancel()
		if cfg.Intn(2) == 1 {
			// the cancellation becomes visible inside one of the ctx.Err() calls the handler
			// and the lock map make (a window without a scheduling point), not at a task switch
			cancelAtErr = true
			fs := r.T.S("fault")
			inner, c := cancelCtx, cancel
			cancelCtx = &simCtx{Context: inner, cancel: c, atErr: func() bool {
				if fs.Intn(5) != 4 {
					return false
				}
				r.Fault("ctx_cancel_at_err")
				r.Probe("c07.cancel_inside_err_call")
				return true
			}}
		}
		cancelClient = cfg.Intn(nClients)
		if len(plans[cancelClient]) > 0 {
			cancelIdx = cfg.Intn(len(plans[cancelClient]))
		}
	}
	s := r.NewSched()
	s.Budget = 40000
	s.OnBlock = func(point string) { r.Probe("c07.lock_waited") }
	for c := 0; c < nClients; c++ {
		c := c
		s.Go(fmt.Sprintf("c%d", c), func() {
			for i, in := range plans[c] {
				if r.Failed() {
					return
				}
				evt++
				call := evt
				op := in.Op
				if c == cancelClient && i == cancelIdx && (in.Kind == "upload" && op.Proto != "resumable" || in.Kind == "patch" || in.Kind == "delete" || in.Kind == "copy" || in.Kind == "compose" || in.Kind == "append" || in.Kind == "copyout") {
					in.Cancel = true
				}
				var resp gResp
				if in.Kind == "listmeta" {
					hr, lp := w.ListPage("bkt", url.Values{"prefix": {in.Name}})
					resp = gResp{Status: hr.Status, Body: hr.Body}
					if lp != nil {
						resp.Status = 404
						for _, it := range lp.Items {
							if it.Name == in.Name {
								resp.Status, resp.Meta = 200, it
							}
						}
					}
				} else if in.Cancel {
					resp = execGCtx(w, op, cancelCtx)
				} else {
					resp = execG(w, op)
				}
				evt++
				out := c07Out{Status: resp.Status, HdrGen: resp.HdrGen, HdrMeta: resp.HdrMeta}
				if resp.Meta != nil {
					out.Gen, out.Metagen = resp.Meta.Gen, resp.Meta.Metagen
					a, b := metaProj(resp.Meta)
					out.Proj = a + "\x00" + b
				}
				if in.Kind == "media" {
					out.BodyH = fmt.Sprintf("%x", hashString(string(resp.Body)))
				}
				if !ok2xx(resp.Status) {
					out.Err = firstLines(string(resp.Body), 2)
				}
				hist = append(hist, hop{c: c, in: in, out: out, call: call, ret: evt})
			}
		})
	}
	if withCancel && !cancelAtErr {
		s.Go("cancel", func() {
			r.Fault("ctx_cancel")
			r.Probe("c07.cancel_fired")
			cancel()
		})
	}
	v := s.Run()
	r.FinishSched(s, v)
	r.Sample = map[string]interface{}{"store": store, "clients": nClients, "ops_each": nOps, "names": nNames, "shape": shape, "cancel": withCancel, "steps": s.Steps, "preemptions": s.Pre}
	if r.Failed() {
		return
	}
	if n := w.emu.VerifLocks().VerifLen(); n != 0 {
		r.Fail("lock-leak", "", "the per-object lock map retains %d entries after all requests finished", n)
		return
	}
	// final reads
	for _, n := range names {
		for _, k := range []string{"getmeta", "media"} {
			op := gOp{Kind: map[string]string{"getmeta": "Get", "media": "Media"}[k], Bucket: "bkt", Name: n}
			evt++
			call := evt
			resp := execG(w, op)
			evt++
			out := c07Out{Status: resp.Status, HdrGen: resp.HdrGen, HdrMeta: resp.HdrMeta}
			if resp.Meta != nil {
				out.Gen, out.Metagen = resp.Meta.Gen, resp.Meta.Metagen
				a, b := metaProj(resp.Meta)
				out.Proj = a + "\x00" + b
			}
			if k == "media" {
				out.BodyH = fmt.Sprintf("%x", hashString(string(resp.Body)))
			}
			hist = append(hist, hop{c: 99, in: c07In{Kind: k, Op: op, Name: n, Desc: "final " + op.String()}, out: out, call: call, ret: evt})
		}
	}
	if store == "file" {
		// whatever the race left on disk, a new emulator on that directory (a kill between
		// requests) serves exactly what the old one served at this quiescent point
		w2 := w.Restart()
		k := len(hist) - 2*len(names)
		for _, n := range names {
			for _, kind := range []string{"getmeta", "media"} {
				op := gOp{Kind: map[string]string{"getmeta": "Get", "media": "Media"}[kind], Bucket: "bkt", Name: n}
				resp := execG(w2, op)
				before := hist[k].out
				k++
				after := c07Out{Status: resp.Status, HdrGen: resp.HdrGen, HdrMeta: resp.HdrMeta}
				if resp.Meta != nil {
					after.Gen, after.Metagen = resp.Meta.Gen, resp.Meta.Metagen
					a, b := metaProj(resp.Meta)
					after.Proj = a + "\x00" + b
				}
				if kind == "media" {
					after.BodyH = fmt.Sprintf("%x", hashString(string(resp.Body)))
				}
				if after != before {
					r.Fail("restart-differs", "", "after the concurrent requests, %s answers %+v; a new emulator on the same directory answers %+v", op, before, after)
					return
				}
			}
		}
		r.Probe("c07.restart_after_race_equal")
	}
	for _, h := range hist {
		r.Mix(fmt.Sprintf("%d%s|", h.out.Status, h.out.Proj))
		r.Hist(map[string]interface{}{"client": h.c, "op": h.in.Desc, "call": h.call, "ret": h.ret, "status": h.out.Status, "gen": h.out.Gen, "metagen": h.out.Metagen, "cancel": h.in.Cancel, "err": h.out.Err})
	}
	// single-winner invariant
	if shape == 0 || shape == 1 || shape == 2 {
		winners := 0
		for _, h := range hist {
			if h.c < 90 && ok2xx(h.out.Status) {
				winners++
			}
		}
		if winners != 1 {
			r.Fail("single-winner", "", "%d of %d writers conditioned on the same (meta)generation succeeded; exactly one must", winners, nClients)
			return
		}
	}
	byName := map[string][]porcupine.Operation{}
	for _, h := range hist {
		byName[h.in.Name] = append(byName[h.in.Name], porcupine.Operation{ClientId: h.c, Input: h.in, Call: h.call, Output: h.out, Return: h.ret})
	}
	var ks []string
	for k := range byName {
		ks = append(ks, k)
	}
	sort.Strings(ks)
	for _, k := range ks {
		model := c07Model(map[string]c07State{})
		switch porcupine.CheckOperationsTimeout(model, byName[k], 30*time.Second) {
		case porcupine.Ok:
			r.Probe("c07.porcupine_ok")
		case porcupine.Unknown:
			r.Probe("c07.porcupine_unknown")
		case porcupine.Illegal:
			var lines []string
			for _, o := range byName[k] {
				in, out := o.Input.(c07In), o.Output.(c07Out)
				lines = append(lines, fmt.Sprintf("  [%d,%d] client %d: %s -> HTTP %d gen=%d metagen=%d hdr=%s/%s body=%s %s", o.Call, o.Return, o.ClientId, in.Desc, out.Status, out.Gen, out.Metagen, out.HdrGen, out.HdrMeta, out.BodyH, out.Err))
			}
			r.Fail("non-linearizable", "", "history of object %q has no serial explanation (store %s):\n%s", k, store, joinLines(lines))
			return
		}
	}
}

// execGCtx is execG with a request context (single-request operations only).
func execGCtx(w *GCSWorld, o gOp, ctx context.Context) gResp {
	w.ctx = ctx // consumed by the next Do, before any scheduling point
	return execG(w, o)
}
