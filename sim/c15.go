package main

import (
	"fmt"
)

// C15: compose concatenates its sources in order; copy clones an object.

func init() {
	register(&PropDef{
		ID: "C15", Level: "exploration", Quick: 8000, Thorough: 400000, QuickCap: 100,
		Rule:   "each run = one store, 3-30 requests after a drawn history: compose with 1..33 sources (repeats, empty objects, the destination among its sources, missing sources, per-source generations), destination metadata from the request; copy (rewrite) within and across buckets to destination names containing '/', '/o/', spaces, dots and percent characters, missing sources; uploads, patches and deletes in between; every response and the full state (sources untouched) are compared with the object model; distinct = hash of (store, shapes, source counts); non-trivial = at least one compose or copy that succeeded",
		Real:   []string{"gcsemu handleGcsCompose/finishCompose, handleGcsCopy (rewriteTo path split), Store.Copy of both stores"},
		Stub:   []string{"HTTP connections (recorder)", "wall clock (strictly increasing)"},
		Assume: []string{"composite objects carry no MD5 (not compared)", "destination names ENDING in '/compose' and copy source names containing '/rewriteTo/' are not sent (ambiguous URL forms)", "0 sources is not sent (unspecified)"},
		Run:    runC15,
	})
	expectedProbes["C15"] = []string{"c15.compose_ok", "c15.compose_32", "c15.compose_33", "c15.compose_missing_source", "c15.compose_dest_among_sources", "c15.copy_ok", "c15.copy_cross_bucket", "c15.copy_dest_with_slash_o", "c15.copy_missing_source", "c15.compose_empty_source", "c15.compose_without_destination"}
}

var c15DstMem = []string{"dst.bin", "out/dir/x.txt", "x/o/y", "a/o/b/o/c", "sp ace/o ut", "d.o.t/..x", "pct%2Fz", "a.txt", "out/composer/final.bin"}
var c15DstFile = []string{"dst.bin", "out/dir/x.txt", "x/o/y", "a/o/b/o/c", "sp ace/o ut", "pct%2Fz", "a.txt", "out/composer/final.bin"}

func runC15(r *Run) {
	cfg := r.T.S("cfg")
	store := pickStore(r, cfg)
	nOps := 3 + cfg.Intn(28)
	clk := NewClock(0, 1_700_000_000_000_000_000)
	wallIncreasing(r, clk)
	g := &gGen{store: store}
	srcNames := []string{"s1", "s2.txt", "dir/s3", "empty.bin", "arch/composed/s5"}
	dsts := c15DstMem
	if store == "file" {
		dsts = c15DstFile
	}
	spec := gSeqSpec{
		Store: store, NOps: nOps, FullEvery: []int{1, 3}[cfg.Intn(2)], Restarts: true,
		Gen: func(d *draws, m *gModel, i int) gOp {
			if i < 3 {
				// seed a few sources first
				name := srcNames[i]
				op := gOp{Kind: "Upload", Proto: []string{"media", "multipart"}[i%2], Up: upSpec{Bucket: "bkt", Name: name, Content: []byte(fmt.Sprintf("<%s:%d>", name, i)), ContentType: "text/plain", Metadata: map[string]string{"from": name}}}
				if op.Proto == "media" {
					op.Up.Metadata = nil
				}
				return op
			}
			switch d.w(6, 5, 3, 1, 1) {
			case 0:
				n := []int{1, 2, 3, 5, 32, 33, 31}[d.w(4, 5, 4, 2, 2, 2, 1)]
				all := append(append([]string(nil), srcNames...), "missing-src")
				dst := dsts[d.n(len(dsts))]
				if d.n(4) == 0 {
					dst = srcNames[d.n(3)] // destination among the sources
				}
				var srcs []string
				var gens []*string
				for k := 0; k < n; k++ {
					s := all[(d.v[d.i%len(d.v)]+k*7)%len(all)]
					if s == "missing-src" && d.n(3) != 0 {
						s = srcNames[k%len(srcNames)]
					}
					if k == 1 && d.n(3) == 0 {
						s = dst
					}
					srcs = append(srcs, s)
					var gp *string
					if o := m.obj("bkt", s); o != nil && k < 2 && d.n(4) == 0 {
						gp = ip(o.Gen + int64(d.n(2)))
					}
					gens = append(gens, gp)
					if len(d.v)-d.i < 8 {
						d.i = len(d.v) - 8
					}
				}
				dm := map[string]interface{}{}
				switch d.n(3) {
				case 1:
					dm["contentType"] = "application/x-composed"
				case 2:
					dm["contentType"] = "text/plain"
					dm["metadata"] = map[string]string{"composed": fmt.Sprint(i)}
				}
				if d.n(8) == 7 {
					// a request body without a "destination" member: the object is still the
					// concatenation and every source stays as it is
					r.Probe("c15.compose_without_destination")
					return gOp{Kind: "Compose", Bucket: "bkt", Name: dst, Srcs: srcs, SrcGens: gens, NoDest: true}
				}
				return gOp{Kind: "Compose", Bucket: "bkt", Name: dst, Srcs: srcs, SrcGens: gens, DstMeta: dm}
			case 1:
				sb := gBuckets[d.w(4, 1)]
				// missing sources include a "folder" of stored objects (dir/s3 is stored): such a
				// name is not an object on either store and the copy must answer 404
				src := existingName(d, m, sb, append(srcNames, "nope", "dir"))
				db := gBuckets[d.w(3, 2)]
				return gOp{Kind: "Copy", Bucket: sb, Name: src, DstB: db, DstN: dsts[d.n(len(dsts))]}
			case 2:
				name := srcNames[d.n(len(srcNames))]
				op := g.upload(d, gBuckets[d.w(5, 1)], name, gConds{})
				if name == "empty.bin" {
					op.Up.Content = []byte{}
					if op.Up.Md5 != "" && !op.BadMd5 {
						op.Up.Md5 = md5b64(nil)
					}
				}
				return op
			case 3:
				body := map[string]interface{}{"metadata": map[string]string{"p": fmt.Sprint(i)}}
				if d.n(2) == 0 {
					// members that are sub-objects of the resource (a copy must not share them)
					body["acl"] = []map[string]string{{"entity": fmt.Sprintf("user-%d", i), "role": "READER"}}
					body["owner"] = map[string]string{"entity": fmt.Sprintf("user-%d", i)}
					r.Probe("c15.patch_of_sub_objects")
				}
				return gOp{Kind: "Patch", Bucket: "bkt", Name: existingName(d, m, "bkt", append(append([]string(nil), srcNames...), dsts...)), Body: body}
			default:
				return gOp{Kind: "Delete", Bucket: "bkt", Name: existingName(d, m, "bkt", srcNames)}
			}
		},
		After: func(op gOp, resp gResp, m *gModel, w *GCSWorld) bool {
			switch op.Kind {
			case "Compose":
				if ok2xx(resp.Status) {
					r.Probe("c15.compose_ok")
					r.nontrivial = true
					if len(op.Srcs) == 32 {
						r.Probe("c15.compose_32")
					}
					for _, s := range op.Srcs {
						if s == op.Name {
							r.Probe("c15.compose_dest_among_sources")
						}
						if s == "empty.bin" {
							r.Probe("c15.compose_empty_source")
						}
					}
				}
				if len(op.Srcs) == 33 {
					r.Probe("c15.compose_33")
				}
				if resp.Status == 404 {
					r.Probe("c15.compose_missing_source")
				}
			case "Copy":
				if ok2xx(resp.Status) {
					r.Probe("c15.copy_ok")
					r.nontrivial = true
					if op.Bucket != op.DstB {
						r.Probe("c15.copy_cross_bucket")
					}
					if len(op.DstN) > 3 && containsStr(op.DstN, "/o/") {
						r.Probe("c15.copy_dest_with_slash_o")
					}
				}
				if resp.Status == 404 {
					r.Probe("c15.copy_missing_source")
				}
			}
			return true
		},
	}
	res := runGSeq(r, spec, clk)
	r.Sample = map[string]interface{}{"store": store, "requests": len(res.Shapes), "first_ops": firstN(res.Shapes, 12)}
}

func containsStr(s, sub string) bool {
	for i := 0; i+len(sub) <= len(s); i++ {
		if s[i:i+len(sub)] == sub {
			return true
		}
	}
	return false
}
