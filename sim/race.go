package main

import (
	"bytes"
	"context"
	"encoding/json"
	"flag"
	"fmt"
	"math/rand"
	"net/http"
	"net/http/httptest"
	"net/url"
	"os"
	"os/exec"
	"path/filepath"
	"runtime"
	"sort"
	"strconv"
	"strings"
	"sync"
	"sync/atomic"
	"syscall"
	"time"

	btapb "cloud.google.com/go/bigtable/admin/apiv2/adminpb"
	btpb "cloud.google.com/go/bigtable/apiv2/bigtablepb"
	"github.com/fullstorydev/emulators/bigtable/bttest"
	"github.com/fullstorydev/emulators/storage/gcsemu"
	"github.com/fullstorydev/emulators/storage/gcsutil"
)

// Race supplement of C20 (DESIGN.md 6/C20, 7.3): the clause "never triggers a fatal runtime error
// such as an unsynchronised map access or data race" cannot be seen by a simulator that runs one
// task at a time, because every hand-over of the baton is a happens-before edge. This part is
// therefore NOT simulation: the same kinds of concurrent request mixes run on real goroutines, with
// the repository's real sync mutexes, in a binary built with the Go race detector. A report of the
// detector (or the runtime's "concurrent map" fatal error) is always a true race; silence proves
// nothing. It is reported separately in the evidence and its replay re-runs the same seed.

// installRaceHooks: tag-on build, no simulator: real mutexes, real clock, real random sources.
func installRaceHooks() {
	bttest.VerifSim.Enabled = false
	bttest.VerifSim.Yield = nil
	bttest.VerifSim.Block = nil
	bttest.VerifSim.Choose = nil
	bttest.VerifSim.WallNow = nil
	bttest.VerifSim.RandInt31n = nil
	bttest.VerifSim.RandFloat = nil
	bttest.VerifSim.WrapLeveldbStorage = nil
	bttest.VerifSim.DisableGCLoop = true
	gcsutil.VerifSim.Yield = nil
	gcsutil.VerifSim.Block = nil
	gcsemu.VerifSim.Yield = nil
	gcsemu.VerifSim.TimeNow = nil
}

func cmdRaceWork(args []string) int {
	fs := flag.NewFlagSet("racework", flag.ExitOnError)
	seed := fs.Int64("seed", 1, "")
	secs := fs.Int("secs", 5, "")
	iters := fs.Int("iters", 1<<30, "")
	mode := fs.String("mode", "emulators", "emulators | lockmap")
	fs.Parse(args)
	installRaceHooks()
	deadline := time.Now().Add(time.Duration(*secs) * time.Second)
	longWait := make(chan struct{})
	if *mode == "lockmap" && *secs >= 8 {
		go raceLockMapLongWait(longWait)
	} else {
		close(longWait)
	}
	defer func() { <-longWait }()
	n := 0
	for ; n < *iters && time.Now().Before(deadline) && racePanic == ""; n++ {
		s := *seed*1_000_003 + int64(n)
		switch {
		case *mode == "lockmap":
			raceLockMap(s)
		case n%2 == 0:
			raceBT(s)
		case n%6 == 1:
			raceGCSCopy(s)
		default:
			raceGCS(s)
		}
	}
	fmt.Printf("RACEWORK iterations=%d\n", n)
	if racePanic != "" {
		fmt.Printf("RACEWORK PANIC: %s\n", racePanic)
		return 67
	}
	return 0
}

// quiet runs one request; a panic of the code under test is recorded (first one wins) - with real
// parallelism a handler can fail in windows that contain no scheduling point of the simulator.
var racePanicMu sync.Mutex
var racePanic string

func quiet(f func()) {
	defer func() {
		if x := recover(); x != nil {
			st := stackNow()
			if underTest(st) {
				racePanicMu.Lock()
				if racePanic == "" {
					racePanic = fmt.Sprintf("%v\n%s", x, trimStack(st))
				}
				racePanicMu.Unlock()
			}
		}
	}()
	f()
}

func raceFail(format string, a ...interface{}) {
	racePanicMu.Lock()
	if racePanic == "" {
		racePanic = "invariant: " + fmt.Sprintf(format, a...)
	}
	racePanicMu.Unlock()
}

// raceLockMap: the lock map alone under real parallelism (C19's supplement): windows between two
// instructions that hold no scheduling point (a length check and the send that follows it) are
// only reachable this way. Invariants: at most one holder per key, false only with a finished
// context, no entry left at quiescence; a wedged map shows as a hang of the whole run.
func raceLockMap(seed int64) {
	rng := rand.New(rand.NewSource(seed))
	lm := gcsutil.NewTransientLockMap()
	keys := []string{"k0", "k1"}
	var holders [2]int32
	nG := 3 + rng.Intn(4)
	var wg sync.WaitGroup
	for g := 0; g < nG; g++ {
		lr := rand.New(rand.NewSource(seed*41 + int64(g)))
		wg.Add(1)
		go func() {
			defer wg.Done()
			for i := 0; i < 150; i++ {
				k := lr.Intn(2)
				if lr.Intn(4) == 0 {
					k = 0 // contention on one key
				}
				ctx := context.Background()
				var cancel context.CancelFunc = func() {}
				switch lr.Intn(5) {
				case 0:
					ctx, cancel = context.WithCancel(ctx)
					cancel() // already done
				case 1:
					ctx, cancel = context.WithTimeout(ctx, time.Duration(lr.Intn(50))*time.Microsecond)
				case 2:
					var c context.CancelFunc
					ctx, c = context.WithCancel(ctx)
					cancel = c
					go func() { runtime.Gosched(); c() }()
				}
				crit := func() {
					if n := atomic.AddInt32(&holders[k], 1); n != 1 {
						raceFail("key %s has %d holders", keys[k], n)
					}
					if lr.Intn(3) == 0 {
						runtime.Gosched()
					}
					atomic.AddInt32(&holders[k], -1)
				}
				if lr.Intn(2) == 0 {
					if lm.Lock(ctx, keys[k]) {
						crit()
						func() {
							defer func() {
								if x := recover(); x != nil {
									raceFail("Unlock by the caller that holds key %s panicked: %v", keys[k], x)
								}
							}()
							lm.Unlock(keys[k])
						}()
					} else if ctx.Err() == nil {
						raceFail("Lock returned false although its context is not done")
					}
				} else {
					boom := lr.Intn(6) == 0
					func() {
						defer func() {
							if x := recover(); x != nil && x != "callback" {
								raceFail("Run on key %s panicked: %v", keys[k], x)
							}
						}()
						lm.Run(ctx, keys[k], func(context.Context) error {
							crit()
							if boom {
								panic("callback")
							}
							return nil
						})
					}()
				}
				cancel()
			}
		}()
	}
	wg.Wait()
	if n := lm.VerifLen(); n != 0 {
		raceFail("lock map retains %d entries although no caller holds or awaits a lock", n)
	}
}

// raceLockMapLongWait: a key is held for several seconds of real time (longer than any test of
// the repository waits) while two callers with contexts that never end wait for it: Lock must
// return true and Run must run its callback once the holder lets go - "false only because its
// context ended". (A wait measured in simulated hours would need a clock seam the package does
// not have; it has no timers of its own.)
func raceLockMapLongWait(done chan struct{}) {
	defer close(done)
	lm := gcsutil.NewTransientLockMap()
	if !lm.Lock(context.Background(), "slow") {
		raceFail("Lock of a free key returned false")
		return
	}
	var wg sync.WaitGroup
	wg.Add(2)
	go func() {
		defer wg.Done()
		if !lm.Lock(context.Background(), "slow") {
			raceFail("Lock returned false after a long wait although its context never ended")
			return
		}
		lm.Unlock("slow")
	}()
	go func() {
		defer wg.Done()
		ran := false
		err := lm.Run(context.Background(), "slow", func(context.Context) error { ran = true; return nil })
		if !ran {
			raceFail("Run returned (%v) after a long wait without running its callback although its context never ended", err)
		}
	}()
	time.Sleep(6500 * time.Millisecond)
	lm.Unlock("slow")
	wg.Wait()
	if n := lm.VerifLen(); n != 0 {
		raceFail("lock map retains %d entries after the long wait", n)
	}
}

func raceBT(seed int64) {
	rng := rand.New(rand.NewSource(seed))
	engine := []string{engLdbMem, engLdbMem, engLdbDisk}[rng.Intn(3)]
	clk := NewClock(1_700_000_000_000_000, 1_700_000_000_000_000_000)
	w := NewBTWorld(&Run{Probes: map[string]int{}, Faults: map[string]int{}}, engine, clk, "")
	defer w.Destroy()
	const parent = "projects/p/instances/i"
	const tbl = parent + "/tables/t"
	rule := &btapb.GcRule{Rule: &btapb.GcRule_MaxNumVersions{MaxNumVersions: 1}}
	w.CreateTable(parent, "t", map[string]*btapb.GcRule{"f1": rule, "f2": nil})
	for i := 0; i < 40; i++ {
		w.MutateRow(tbl, fmt.Sprintf("r%03d", i), mutList{setCell("f1", "q", 1000, "a"), setCell("f1", "q", 2000, "b"), setCell("f2", "x", 1000, "c")})
	}
	nG := 4 + rng.Intn(4)
	var wg sync.WaitGroup
	for g := 0; g < nG; g++ {
		lr := rand.New(rand.NewSource(seed*31 + int64(g)))
		g := g
		wg.Add(1)
		go func() {
			defer wg.Done()
			for i := 0; i < 25; i++ {
				key := fmt.Sprintf("r%03d", lr.Intn(40))
				quiet(func() {
					switch lr.Intn(16) {
					case 0, 1:
						w.MutateRow(tbl, key, mutList{setCell("f1", "q", int64(1+lr.Intn(5))*1000, "w")})
					case 2:
						w.RMW(tbl, key, []*btpb.ReadModifyWriteRule{{FamilyName: "f2", ColumnQualifier: []byte("n"), Rule: &btpb.ReadModifyWriteRule_IncrementAmount{IncrementAmount: 1}}})
					case 3:
						w.CheckAndMutate(tbl, key, &btpb.RowFilter{Filter: &btpb.RowFilter_ColumnQualifierRegexFilter{ColumnQualifierRegexFilter: []byte(fmt.Sprintf("q|x%d", lr.Intn(1000)))}}, mutList{setCell("f2", "t", 1000, "1")}, nil)
					case 4, 5:
						// scans with filters whose regular expressions were never seen before
						w.ReadRows(&btpb.ReadRowsRequest{TableName: tbl, Filter: &btpb.RowFilter{Filter: &btpb.RowFilter_RowKeyRegexFilter{RowKeyRegexFilter: []byte(fmt.Sprintf("r0.*|k%d-%d", g, lr.Intn(100000)))}}})
					case 6:
						w.ReadRows(&btpb.ReadRowsRequest{TableName: tbl, Filter: &btpb.RowFilter{Filter: &btpb.RowFilter_ValueRegexFilter{ValueRegexFilter: []byte(fmt.Sprintf("[a-c]|v%d", lr.Intn(100000)))}}, RowsLimit: int64(lr.Intn(10))})
					case 7:
						w.SampleRowKeys(tbl)
					case 8:
						w.GetTable(tbl)
						w.ListTablesView(parent, []btapb.Table_View{btapb.Table_VIEW_UNSPECIFIED, btapb.Table_SCHEMA_VIEW, btapb.Table_FULL}[lr.Intn(3)])
					case 9:
						id := "f3"
						mod := &btapb.ModifyColumnFamiliesRequest_Modification{Id: id, Mod: &btapb.ModifyColumnFamiliesRequest_Modification_Create{Create: &btapb.ColumnFamily{GcRule: rule}}}
						if lr.Intn(2) == 0 {
							mod.Mod = &btapb.ModifyColumnFamiliesRequest_Modification_Drop{Drop: true}
						}
						target := tbl
						if k := lr.Intn(3); k > 0 {
							target = fmt.Sprintf("%s/tables/o%d", parent, k-1) // tables that are being created right now
						}
						w.ModifyFamilies(target, []*btapb.ModifyColumnFamiliesRequest_Modification{mod})
					case 10:
						w.CreateTable(parent, fmt.Sprintf("o%d", lr.Intn(2)), map[string]*btapb.GcRule{"f1": nil})
					case 11:
						w.DeleteTable(fmt.Sprintf("%s/tables/o%d", parent, lr.Intn(2)))
					case 12:
						w.DropRowRange(tbl, []byte(fmt.Sprintf("r00%d", lr.Intn(10))), false)
					case 13:
						w.svc.Admin().GenerateConsistencyToken(context.Background(), &btapb.GenerateConsistencyTokenRequest{Name: tbl})
						w.svc.Admin().CheckConsistency(context.Background(), &btapb.CheckConsistencyRequest{Name: tbl, ConsistencyToken: "TokenFor-" + tbl})
					case 14:
						w.GC(tbl, true)
					default:
						w.MutateRows(tbl, []entryIn{{Key: key, Muts: mutList{setCell("f2", "m", 1000, "z")}}, {Key: "r001", Muts: mutList{setCell("nofam", "m", 1000, "z")}}})
					}
				})
			}
		}()
	}
	wg.Wait()
}

// raceGCSCopy: one object overwritten continuously (each version carries its tag in the content
// type, in a large user-metadata map and in its bytes) while other goroutines copy it to fresh
// names: every copy must be one version, never the attributes of one with the bytes of another.
func raceGCSCopy(seed int64) {
	rng := rand.New(rand.NewSource(seed))
	var st gcsemu.Store
	if rng.Intn(3) != 0 {
		st = gcsemu.NewMemStore()
	} else {
		dir := scratchDir("gcs-race-")
		defer os.RemoveAll(dir)
		st = gcsemu.NewFileStore(dir)
	}
	emu := gcsemu.NewGcsEmu(gcsemu.Options{Store: st})
	mux := http.NewServeMux()
	emu.Register(mux)
	do := func(method, path string, q url.Values, hdr map[string]string, body []byte) *httptest.ResponseRecorder {
		target := path
		if len(q) > 0 {
			target += "?" + q.Encode()
		}
		req := httptest.NewRequest(method, "http://gcs.test"+target, bytes.NewReader(body))
		for k, v := range hdr {
			req.Header.Set(k, v)
		}
		rec := httptest.NewRecorder()
		quiet(func() { mux.ServeHTTP(rec, req) })
		return rec
	}
	do("POST", "/storage/v1/b", url.Values{"project": {"p"}}, map[string]string{"Content-Type": "application/json"}, []byte(`{"name":"bkt"}`))
	upload := func(tag string) {
		md := map[string]string{}
		for k := 0; k < 200; k++ {
			md[fmt.Sprintf("k%03d", k)] = tag
		}
		meta, _ := json.Marshal(map[string]interface{}{"name": "hot", "contentType": "text/x-" + tag, "metadata": md})
		var b bytes.Buffer
		fmt.Fprintf(&b, "--bnd\r\nContent-Type: application/json\r\n\r\n%s\r\n--bnd\r\nContent-Type: text/x-%s\r\n\r\ncontent-%s\r\n--bnd--\r\n", meta, tag, tag)
		do("POST", "/upload/storage/v1/b/bkt/o", url.Values{"uploadType": {"multipart"}}, map[string]string{"Content-Type": "multipart/related; boundary=bnd"}, b.Bytes())
	}
	upload("v0")
	var wg sync.WaitGroup
	var stop int32
	wg.Add(1)
	go func() {
		defer wg.Done()
		for i := 1; i <= 40; i++ {
			upload(fmt.Sprintf("v%d", i))
		}
		atomic.StoreInt32(&stop, 1)
	}()
	for g := 0; g < 3; g++ {
		g := g
		wg.Add(1)
		go func() {
			defer wg.Done()
			for i := 0; atomic.LoadInt32(&stop) == 0 && i < 2000; i++ {
				rec := do("POST", "/storage/v1/b/bkt/o/hot/rewriteTo/b/bkt/o/"+fmt.Sprintf("cp-%d-%d", g, i), nil, nil, nil)
				var rr struct {
					Resource struct {
						ContentType string            `json:"contentType"`
						Md5Hash     string            `json:"md5Hash"`
						Metadata    map[string]string `json:"metadata"`
					} `json:"resource"`
				}
				if rec.Code != 200 || json.Unmarshal(rec.Body.Bytes(), &rr) != nil || !strings.HasPrefix(rr.Resource.ContentType, "text/x-v") {
					continue
				}
				tag := strings.TrimPrefix(rr.Resource.ContentType, "text/x-")
				if rr.Resource.Md5Hash != md5b64([]byte("content-"+tag)) || rr.Resource.Metadata["k000"] != tag || rr.Resource.Metadata["k199"] != tag {
					raceFail("a copy of an object that is being overwritten carries contentType %q, metadata of %q/%q and md5Hash %s: a mixture of two versions", rr.Resource.ContentType, rr.Resource.Metadata["k000"], rr.Resource.Metadata["k199"], rr.Resource.Md5Hash)
					return
				}
			}
		}()
	}
	wg.Wait()
}

func raceGCS(seed int64) {
	rng := rand.New(rand.NewSource(seed))
	var st gcsemu.Store
	dir := ""
	if rng.Intn(2) == 0 {
		st = gcsemu.NewMemStore()
	} else {
		dir = scratchDir("gcs-race-")
		defer os.RemoveAll(dir)
		st = gcsemu.NewFileStore(dir)
	}
	emu := gcsemu.NewGcsEmu(gcsemu.Options{Store: st})
	mux := http.NewServeMux()
	emu.Register(mux)
	do := func(method, path string, q url.Values, hdr map[string]string, body []byte) *httptest.ResponseRecorder {
		target := path
		if len(q) > 0 {
			target += "?" + q.Encode()
		}
		req := httptest.NewRequest(method, "http://gcs.test"+target, bytes.NewReader(body))
		for k, v := range hdr {
			req.Header.Set(k, v)
		}
		rec := httptest.NewRecorder()
		quiet(func() { mux.ServeHTTP(rec, req) })
		return rec
	}
	do("POST", "/storage/v1/b", url.Values{"project": {"p"}}, map[string]string{"Content-Type": "application/json"}, []byte(`{"name":"bkt"}`))
	for i := 0; i < 6; i++ {
		do("POST", "/upload/storage/v1/b/bkt/o", url.Values{"uploadType": {"media"}, "name": {fmt.Sprintf("o%d", i)}}, map[string]string{"Content-Type": "text/plain"}, []byte("seed"))
	}
	// one pending resumable upload shared by several goroutines
	rec := do("POST", "/upload/storage/v1/b/bkt/o", url.Values{"uploadType": {"resumable"}, "name": {"res.bin"}}, map[string]string{"Content-Type": "application/json"}, []byte(`{"name":"res.bin"}`))
	upID := ""
	if loc := rec.Header().Get("Location"); loc != "" {
		if u, err := url.Parse(loc); err == nil {
			upID = u.Query().Get("upload_id")
		}
	}
	nG := 4 + rng.Intn(4)
	var wg sync.WaitGroup
	// every goroutine starts by creating the same, not yet existing bucket and uploading into it:
	// whatever the creations' order, an upload that was answered 200 is still there at the end
	const nFresh = 96
	var fresh [8 * nFresh]int32
	var bar [nFresh]sync.WaitGroup // all goroutines reach each creation at the same moment
	for b := range bar {
		bar[b].Add(nG)
	}
	for g := 0; g < nG; g++ {
		lr := rand.New(rand.NewSource(seed*37 + int64(g)))
		g := g
		wg.Add(1)
		go func() {
			defer wg.Done()
			for b := 0; b < nFresh; b++ {
				bar[b].Done()
				bar[b].Wait()
				// every fourth bucket: everybody creates explicitly, then uploads; the others: the bucket comes
				// into existence with the first upload, and only goroutine 0 creates it explicitly
				if b%4 == 0 || g == 0 {
					do("POST", "/storage/v1/b", url.Values{"project": {"p"}}, map[string]string{"Content-Type": "application/json"}, []byte(fmt.Sprintf(`{"name":"fresh%d"}`, b)))
				}
				if rec := do("POST", fmt.Sprintf("/upload/storage/v1/b/fresh%d/o", b), url.Values{"uploadType": {"media"}, "name": {fmt.Sprintf("n%d", g)}}, map[string]string{"Content-Type": "text/plain"}, []byte("kept")); rec.Code == 200 {
					atomic.StoreInt32(&fresh[g*nFresh+b], 1)
				}
			}
			for i := 0; i < 20; i++ {
				name := fmt.Sprintf("o%d", lr.Intn(6))
				switch lr.Intn(16) {
				case 0, 1:
					// content type and bytes carry the same version tag
					tag := fmt.Sprintf("g%di%d", g, i)
					do("POST", "/upload/storage/v1/b/bkt/o", url.Values{"uploadType": {"media"}, "name": {name}}, map[string]string{"Content-Type": "text/x-" + tag}, []byte("content-"+tag))
				case 2:
					do("GET", "/storage/v1/b/bkt/o/"+name, url.Values{"alt": {"json"}}, nil, nil)
				case 3:
					do("GET", "/storage/v1/b/bkt/o/"+name, url.Values{"alt": {"media"}}, nil, nil)
				case 4:
					do("PATCH", "/storage/v1/b/bkt/o/"+name, nil, map[string]string{"Content-Type": "application/json"}, []byte(fmt.Sprintf(`{"metadata":{"k":"%d"}}`, i)))
				case 5:
					do("DELETE", "/storage/v1/b/bkt/o/"+name, nil, nil, nil)
				case 6:
					do("GET", "/storage/v1/b/bkt/o", url.Values{"delimiter": {"/"}, "maxResults": {"3"}}, nil, nil)
				case 7:
					do("POST", "/storage/v1/b/bkt/o/"+name+"/rewriteTo/b/bkt/o/"+fmt.Sprintf("o%d", lr.Intn(6)), nil, nil, nil)
				case 14:
					// a copy to a name nobody else touches is a read of ONE version of the source:
					// the attributes and the bytes of the copy must belong together
					rec := do("POST", "/storage/v1/b/bkt/o/"+name+"/rewriteTo/b/bkt/o/"+fmt.Sprintf("cp-%d-%d", g, i), nil, nil, nil)
					var rr struct {
						Resource struct {
							ContentType string `json:"contentType"`
							Md5Hash     string `json:"md5Hash"`
						} `json:"resource"`
					}
					if rec.Code == 200 && json.Unmarshal(rec.Body.Bytes(), &rr) == nil && strings.HasPrefix(rr.Resource.ContentType, "text/x-g") {
						want := md5b64([]byte("content-" + strings.TrimPrefix(rr.Resource.ContentType, "text/x-")))
						if rr.Resource.Md5Hash != want {
							raceFail("copy of %s carries contentType %q with md5Hash %s: the attributes of one version with the bytes of another", name, rr.Resource.ContentType, rr.Resource.Md5Hash)
						}
					}
				case 8:
					do("POST", "/storage/v1/b/bkt/o/"+name+"/compose", nil, map[string]string{"Content-Type": "application/json"}, []byte(`{"sourceObjects":[{"name":"o0"},{"name":"o1"}],"destination":{"contentType":"text/plain"}}`))
				case 9, 10:
					if upID != "" {
						lo := lr.Intn(3) * 2
						do("PUT", "/upload/storage/v1/b/bkt/o", url.Values{"upload_id": {upID}}, map[string]string{"Content-Range": fmt.Sprintf("bytes %d-%d/*", lo, lo+1)}, []byte("ab"))
					}
				case 11:
					if upID != "" {
						do("PUT", "/upload/storage/v1/b/bkt/o", url.Values{"upload_id": {upID}}, map[string]string{"Content-Range": "bytes */*"}, nil)
					}
				case 12:
					do("GET", "/storage/v1/b", url.Values{"project": {"p"}}, nil, nil)
					do("GET", "/storage/v1/b/bkt", nil, nil, nil)
				default:
					do("POST", "/upload/storage/v1/b/bkt/o", url.Values{"uploadType": {"resumable"}, "name": {name}}, map[string]string{"Content-Type": "application/json"}, []byte(`{"name":"`+name+`"}`))
				}
			}
		}()
	}
	wg.Wait()
	for g := 0; g < nG; g++ {
		for b := 0; b < nFresh; b++ {
			if atomic.LoadInt32(&fresh[g*nFresh+b]) == 1 {
				if rec := do("GET", fmt.Sprintf("/storage/v1/b/fresh%d/o/n%d", b, g), url.Values{"alt": {"media"}}, nil, nil); rec.Code != 200 || rec.Body.String() != "kept" {
					raceFail("object fresh%d/n%d was uploaded (HTTP 200) into a bucket several requests were creating at once; afterwards GET gives HTTP %d %q", b, g, rec.Code, rec.Body.String())
					return
				}
			}
		}
	}
}

// ---- driver side ------------------------------------------------------------------------------

type raceOutcome struct {
	evidence   map[string]interface{}
	lines      []string
	knownHit   []string
	violations []map[string]interface{}
	infra      []string
}

func raceBin() string { return os.Getenv("VERIF_RACE_BIN") }

// runRaceChild runs one racework process; returns its combined output and whether it reported.
func runRaceChild(seed int64, secs int) (out string, reported bool, iters int) {
	// a run that has not ended two minutes after its own deadline is wedged (a real deadlock):
	// it is sent SIGQUIT so that the goroutine dump ends up in the output
	ctx, cancel := context.WithTimeout(context.Background(), time.Duration(secs+120)*time.Second)
	defer cancel()
	cmd := exec.CommandContext(ctx, raceBin(), append([]string{"racework", "-seed", strconv.FormatInt(seed, 10), "-secs", strconv.Itoa(secs)}, raceExtraArgs...)...)
	cmd.Cancel = func() error { return cmd.Process.Signal(syscall.SIGQUIT) }
	cmd.WaitDelay = 10 * time.Second
	cmd.Env = append(os.Environ(), "GORACE=halt_on_error=1 exitcode=66")
	var sb strings.Builder
	cmd.Stdout = &tailWriter{b: &sb, max: 64000}
	cmd.Stderr = cmd.Stdout
	err := cmd.Run()
	out = sb.String()
	if i := strings.LastIndex(out, "RACEWORK iterations="); i >= 0 {
		fmt.Sscanf(out[i:], "RACEWORK iterations=%d", &iters)
	}
	if ctx.Err() != nil {
		return "RACEWORK HANG: the run did not end within 120 s of its deadline\n" + out, true, iters
	}
	if err != nil || strings.Contains(out, "WARNING: DATA RACE") || strings.Contains(out, "fatal error:") || strings.Contains(out, "RACEWORK PANIC:") {
		return out, true, iters
	}
	return out, false, iters
}

// raceExtraArgs selects the workload of the children (C19: the lock map alone).
var raceExtraArgs []string

// raceSignature: the first repository frame of each of the two conflicting accesses (or of the
// goroutine that hit a runtime fatal error), sorted; "" if the output holds no report.
func raceSignature(out string) (sig string, report string) {
	if i := strings.Index(out, "RACEWORK HANG:"); i >= 0 {
		rep := out[i:]
		if len(rep) > 8000 {
			rep = rep[:8000]
		}
		return "hang: real goroutines wedged", rep
	}
	if i := strings.Index(out, "RACEWORK PANIC: invariant:"); i >= 0 {
		rep := out[i:]
		if len(rep) > 3000 {
			rep = rep[:3000]
		}
		return "invariant broken under real parallelism", rep
	}
	if i := strings.Index(out, "RACEWORK PANIC:"); i >= 0 {
		rep := out[i:]
		if len(rep) > 6000 {
			rep = rep[:6000]
		}
		frame := ""
		for _, l := range strings.Split(rep, "\n") {
			t := strings.TrimSpace(l)
			if strings.HasPrefix(t, "github.com/fullstorydev/emulators/") {
				frame = strings.TrimPrefix(t, "github.com/fullstorydev/emulators/")
				if j := strings.LastIndex(frame, "("); j > 0 && !strings.Contains(frame[j:], "*") {
					frame = frame[:j]
				}
				break
			}
		}
		return "panic: " + frame, rep
	}
	idx := strings.Index(out, "WARNING: DATA RACE")
	fatal := false
	if idx < 0 {
		idx = strings.Index(out, "fatal error:")
		fatal = true
	}
	if idx < 0 {
		return "", ""
	}
	report = out[idx:]
	if end := strings.Index(report[1:], "=================="); end > 0 && !fatal {
		report = report[:end+1]
	}
	if len(report) > 6000 {
		report = report[:6000]
	}
	var frames []string
	inBlock := false
	got := false
	for _, l := range strings.Split(report, "\n") {
		t := strings.TrimSpace(l)
		switch {
		case strings.HasPrefix(t, "Read at") || strings.HasPrefix(t, "Write at") || strings.HasPrefix(t, "Previous read at") || strings.HasPrefix(t, "Previous write at") || strings.HasPrefix(t, "fatal error:") || strings.HasPrefix(t, "goroutine "):
			inBlock, got = true, false
		case strings.HasPrefix(t, "Goroutine ") && strings.Contains(t, "created at"):
			inBlock = false
		case inBlock && !got && strings.HasPrefix(t, "github.com/fullstorydev/emulators/"):
			f := strings.TrimPrefix(t, "github.com/fullstorydev/emulators/")
			if i := strings.Index(f, "("); i > 0 && strings.HasSuffix(f, ")") && !strings.Contains(f[i:], "*") {
				f = f[:i]
			}
			f = strings.TrimSuffix(f, "()")
			frames = append(frames, f)
			got = true
			if fatal {
				inBlock = false
			}
		}
	}
	if len(frames) > 2 {
		frames = frames[:2]
	}
	sort.Strings(frames)
	kind := "data-race"
	if fatal {
		kind = "fatal-error"
	}
	return kind + ": " + strings.Join(frames, " <-> "), report
}

// raceProp is the property whose supplement is running (C20: both emulators; C19: the lock map).
var raceProp = "C20"

func raceSupplement(prop, tier string, master uint64, known []KnownFinding) raceOutcome {
	var ro raceOutcome
	raceProp = prop
	if prop == "C19" {
		raceExtraArgs = []string{"-mode", "lockmap"}
	}
	if raceBin() == "" {
		ro.evidence = map[string]interface{}{"ran": false, "reason": "no race-detector binary (VERIF_RACE_BIN unset)"}
		return ro
	}
	procs, secs := 4, 10
	if tier == "thorough" {
		procs, secs = 8, 90
	}
	type res struct {
		seed  int64
		out   string
		rep   bool
		iters int
	}
	results := make([]res, procs)
	var wg sync.WaitGroup
	for i := 0; i < procs; i++ {
		i := i
		wg.Add(1)
		go func() {
			defer wg.Done()
			seed := int64(master%1_000_000)*1000 + int64(i)
			out, rep, it := runRaceChild(seed, secs)
			results[i] = res{seed, out, rep, it}
		}()
	}
	wg.Wait()
	total := 0
	sigs := map[string]res{}
	var order []string
	for _, r := range results {
		total += r.iters
		if !r.rep {
			continue
		}
		sig, _ := raceSignature(r.out)
		if sig == "" {
			ro.infra = append(ro.infra, fmt.Sprintf("race supplement: child with seed %d failed without a race report:\n%s", r.seed, firstLines(lastN(r.out, 3000), 40)))
			continue
		}
		if strings.HasPrefix(sig, "data-race: ") && strings.TrimSpace(strings.TrimPrefix(sig, "data-race:")) == "" {
			// both accesses are in the harness itself: a defect of the machinery, not of the repository
			_, rep := raceSignature(r.out)
			ro.infra = append(ro.infra, fmt.Sprintf("race supplement: data race inside the harness (no repository frame), seed %d:\n%s", r.seed, firstLines(rep, 40)))
			continue
		}
		if _, ok := sigs[sig]; !ok {
			sigs[sig] = r
			order = append(order, sig)
		}
	}
	sort.Strings(order)
	for _, sig := range order {
		r := sigs[sig]
		_, report := raceSignature(r.out)
		v := &Violation{Prop: raceProp, Kind: "real-goroutines", Witness: sig, Msg: "race supplement (real goroutines, go build -race), seed " + fmt.Sprint(r.seed) + ":\n" + report}
		rf := &ReplayFile{Property: prop, Tier: tier, MasterSeed: master, RunSeed: uint64(r.seed), Generate: true, Violation: v, Class: v.Class(), Race: &RaceReplay{Seed: r.seed, Seconds: 60, Signature: sig, Args: raceExtraArgs}}
		path := filepath.Join(replayDir(prop), fmt.Sprintf("%s-race-%d-%x.json", prop, r.seed, hashString(sig)&0xffffff))
		b, _ := json.MarshalIndent(rf, "", " ")
		os.WriteFile(path, b, 0666)
		if kf := matchKnown(known, v); kf != nil {
			ro.lines = append(ro.lines, fmt.Sprintf("KNOWN-FINDING: property=%s %s (witness %s; replay %s)", prop, kf.What, kf.Witness, path))
			ro.knownHit = append(ro.knownHit, kf.Witness)
			continue
		}
		// a report of the detector is a true race; all the same it is confirmed by re-running the seed
		if !replayRace(rf.Race) {
			ro.infra = append(ro.infra, fmt.Sprintf("race supplement: the report %q of seed %d did not recur in %d s of re-running that seed (a detector report is a true race, but it is not reported as a violation without a replay):\n%s", sig, r.seed, rf.Race.Seconds, firstLines(report, 60)))
			continue
		}
		ro.lines = append(ro.lines, fmt.Sprintf("VIOLATION property=%s replay=%s", prop, path), fmt.Sprintf("  class=%s\n  %s", v.Class(), firstLines(report, 30)))
		ro.violations = append(ro.violations, map[string]interface{}{"class": v.Class(), "replay": path, "message": firstLines(report, 12)})
	}
	ro.evidence = map[string]interface{}{
		"ran": true, "what": "NOT simulation: the concurrent workload of this check on real goroutines with the repository's real mutexes, in a binary built with the Go race detector (go build -race -tags verif, no simulator installed); a report of the detector is a true race; also reported: a panic of the code under test, a broken invariant, a run that wedges; silence proves nothing",
		"processes": procs, "seconds_each": secs, "iterations": total, "reports": len(order), "signatures": order,
	}
	return ro
}

func lastN(s string, n int) string {
	if len(s) > n {
		return s[len(s)-n:]
	}
	return s
}

// replayRace re-runs the seed until the same signature is reported or the time is used up.
func replayRace(rr *RaceReplay) bool {
	if raceBin() == "" {
		return false
	}
	raceExtraArgs = rr.Args
	deadline := time.Now().Add(time.Duration(rr.Seconds) * time.Second)
	for time.Now().Before(deadline) {
		out, rep, _ := runRaceChild(rr.Seed, 15)
		if rep {
			if sig, _ := raceSignature(out); sig == rr.Signature {
				return true
			}
		}
	}
	return false
}
