package main

import (
	"runtime"
	"sync"

	"github.com/fullstorydev/emulators/bigtable/bttest"
	"github.com/syndtr/goleveldb/leveldb/storage"
)

// Pass-through around goleveldb's file storage (installed through the tagged hook
// bttest.VerifSim.WrapLeveldbStorage):
//   - every file operation issued by a simulated task is a scheduling point (so a process kill
//     can be placed between any two of them) and a Write can be torn in two;
//   - every file operation (also those of goleveldb's own background goroutines) holds imgMu for
//     reading, and a crash image is copied while holding it for writing, so an image always shows
//     a set of completed system calls and never an operation in progress.

var imgMu sync.RWMutex

// ldbTear, when set, decides whether a Write of n bytes is split (return k in (0,n)) or not (0).
var ldbTear func(path string, n int) int

func goid() int64 {
	var b [64]byte
	n := runtime.Stack(b[:], false)
	// "goroutine 123 [running]:"
	var id int64
	for i := len("goroutine "); i < n && b[i] >= '0' && b[i] <= '9'; i++ {
		id = id*10 + int64(b[i]-'0')
	}
	return id
}

// onTask reports whether the caller is the goroutine of the currently scheduled task.
func onTask() bool {
	s := simS
	return s != nil && s.running && s.cur != nil && s.cur.goid == goid()
}

// ldbYieldOn enables scheduling points inside goleveldb file operations. A task parked there
// holds goleveldb-internal locks, so it is only switched on by the crash check (C08), whose
// tasks never contend for one database while parked inside it.
var ldbYieldOn bool

func ldbYield(p string) {
	if ldbYieldOn && onTask() {
		simS.Yield(p)
	}
}

type ldbStorage struct {
	in   storage.Storage
	path string
}

func wrapLeveldbStorage(path string, s storage.Storage) storage.Storage {
	return &ldbStorage{in: s, path: path}
}

func init() {
	bttest.VerifSim.WrapLeveldbStorage = wrapLeveldbStorage
}

type ldbLocker struct {
	in storage.Locker
	s  *ldbStorage
}

func (l *ldbLocker) Unlock() {
	l.in.Unlock()
	// the database is done with the storage (leveldb.OpenFile would close it here)
	imgMu.RLock()
	defer imgMu.RUnlock()
	_ = l.s.in.Close()
}

func (s *ldbStorage) Lock() (storage.Locker, error) {
	l, err := s.in.Lock()
	if err != nil {
		return nil, err
	}
	return &ldbLocker{in: l, s: s}, nil
}

func (s *ldbStorage) Log(str string) {
	imgMu.RLock()
	defer imgMu.RUnlock()
	s.in.Log(str)
}

func (s *ldbStorage) SetMeta(fd storage.FileDesc) error {
	ldbYield("ldb.SetMeta")
	imgMu.RLock()
	defer imgMu.RUnlock()
	return s.in.SetMeta(fd)
}

func (s *ldbStorage) GetMeta() (storage.FileDesc, error) {
	imgMu.RLock()
	defer imgMu.RUnlock()
	return s.in.GetMeta()
}

func (s *ldbStorage) List(ft storage.FileType) ([]storage.FileDesc, error) {
	imgMu.RLock()
	defer imgMu.RUnlock()
	return s.in.List(ft)
}

func (s *ldbStorage) Open(fd storage.FileDesc) (storage.Reader, error) {
	imgMu.RLock()
	defer imgMu.RUnlock()
	return s.in.Open(fd)
}

func (s *ldbStorage) Create(fd storage.FileDesc) (storage.Writer, error) {
	ldbYield("ldb.Create")
	imgMu.RLock()
	defer imgMu.RUnlock()
	w, err := s.in.Create(fd)
	if err != nil {
		return nil, err
	}
	return &ldbWriter{in: w, s: s}, nil
}

func (s *ldbStorage) Remove(fd storage.FileDesc) error {
	ldbYield("ldb.Remove")
	imgMu.RLock()
	defer imgMu.RUnlock()
	return s.in.Remove(fd)
}

func (s *ldbStorage) Rename(o, n storage.FileDesc) error {
	ldbYield("ldb.Rename")
	imgMu.RLock()
	defer imgMu.RUnlock()
	return s.in.Rename(o, n)
}

func (s *ldbStorage) Close() error {
	imgMu.RLock()
	defer imgMu.RUnlock()
	return s.in.Close()
}

type ldbWriter struct {
	in storage.Writer
	s  *ldbStorage
}

func (w *ldbWriter) write(p []byte) (int, error) {
	imgMu.RLock()
	defer imgMu.RUnlock()
	return w.in.Write(p)
}

func (w *ldbWriter) Write(p []byte) (int, error) {
	if !ldbYieldOn || !onTask() {
		return w.write(p)
	}
	simS.Yield("ldb.Write")
	if f := ldbTear; f != nil && len(p) > 1 {
		if k := f(w.s.path, len(p)); k > 0 && k < len(p) {
			n, err := w.write(p[:k])
			if err != nil {
				return n, err
			}
			simS.Yield("ldb.Write.torn")
			m, err := w.write(p[k:])
			return n + m, err
		}
	}
	return w.write(p)
}

func (w *ldbWriter) Sync() error {
	ldbYield("ldb.Sync")
	imgMu.RLock()
	defer imgMu.RUnlock()
	return w.in.Sync()
}

func (w *ldbWriter) Close() error {
	imgMu.RLock()
	defer imgMu.RUnlock()
	return w.in.Close()
}

// imageDir copies a storage directory while no file operation is in progress.
func imageDir(src, dst string) error {
	imgMu.Lock()
	defer imgMu.Unlock()
	return copyTree(src, dst)
}
