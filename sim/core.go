package main

import (
	"encoding/json"
	"fmt"
	"sort"
)

// Violation is what a run reports. Class = Prop/Kind[/Witness]; minimisation preserves the class.
type Violation struct {
	Prop    string      `json:"property"`
	Kind    string      `json:"kind"`
	Witness string      `json:"witness,omitempty"`
	Msg     string      `json:"message"`
	Detail  interface{} `json:"detail,omitempty"`
}

func (v *Violation) Class() string {
	if v.Witness != "" {
		return v.Prop + "/" + v.Kind + "/" + v.Witness
	}
	return v.Prop + "/" + v.Kind
}

// Run is the context of one simulated run.
type Run struct {
	Prop   string
	Tier   string
	Index  int // run index within the batch (directed sub-workloads use small indices)
	Master uint64
	T      *Tape
	Keep   bool // keep trace/history (replay mode, samples)

	Sched *Sched
	V     *Violation

	Probes map[string]int
	Faults map[string]int
	Steps  int
	Pre    int
	// simulated time covered
	SimServerUs int64
	SimWallNs   int64
	hash        uint64
	nontrivial  bool
	History     []interface{}
	Sample      interface{}
	Sub         map[string][]int // sub-space visits (name -> item indices)
	cleanup     []func()
	clkRestore  *Clock
}

func (r *Run) Probe(name string) { r.Probes[name]++ }
func (r *Run) ProbeN(name string, n int) {
	r.Probes[name] += n
}
func (r *Run) Fault(name string) { r.Faults[name]++ }
func (r *Run) Visit(space string, idx int) {
	r.Sub[space] = append(r.Sub[space], idx)
}

func (r *Run) Mix(s string) {
	if r.hash == 0 {
		r.hash = 1469598103934665603
	}
	for i := 0; i < len(s); i++ {
		r.hash ^= uint64(s[i])
		r.hash *= 1099511628211
	}
}

func (r *Run) Hist(x interface{}) {
	if r.Keep && len(r.History) < 400 {
		r.History = append(r.History, x)
	}
}

func (r *Run) Fail(kind, witness, format string, a ...interface{}) {
	if r.V != nil {
		return
	}
	r.V = &Violation{Prop: r.Prop, Kind: kind, Witness: witness, Msg: fmt.Sprintf(format, a...)}
}

func (r *Run) Failed() bool { return r.V != nil }

func (r *Run) Defer(f func()) { r.cleanup = append(r.cleanup, f) }

// NewSched creates the scheduler of this run and installs the hooks.
func (r *Run) NewSched() *Sched {
	s := NewSched(r.T, r.Keep)
	r.Sched = s
	installSched(s)
	return s
}

// FinishSched folds the scheduler's statistics into the run and maps verdicts to violations.
func (r *Run) FinishSched(s *Sched, v Verdict) {
	r.Steps += s.Steps
	r.Pre += s.Pre
	r.Mix(fmt.Sprintf("%x", s.Hash()))
	if s.Pre > 0 {
		r.nontrivial = true
	}
	installSched(nil)
	switch v.Kind {
	case "":
	case "panic":
		r.Fail("panic", "", "%s", v.Msg)
	case "harness":
		harnessErr("%s", v.Msg)
	default:
		r.Fail(v.Kind, "", "%s", v.Msg)
	}
}

// Property registry ---------------------------------------------------------------------------

type PropDef struct {
	ID        string
	Level     string // exploration | fault_enumeration
	Quick     int    // runs in the quick tier
	Thorough  int    // runs in the thorough tier
	QuickCap  int    // wall-clock cap (seconds) for the quick tier
	Rule      string
	Real      []string
	Stub      []string
	Assume    []string
	Run       func(r *Run)
	Subspaces func() map[string]int // name -> size of finite sub-spaces visited by permutation
	PerProc   int                   // recycle worker after this many runs (0 = default)
}

var props = map[string]*PropDef{}

func register(p *PropDef) { props[p.ID] = p }

func propIDs() []string {
	var ids []string
	for id := range props {
		ids = append(ids, id)
	}
	sort.Strings(ids)
	return ids
}

// execute runs one case. Panics in harness code are infrastructure errors (returned as err).
func execute(p *PropDef, r *Run) (err error) {
	r.Probes = map[string]int{}
	r.Faults = map[string]int{}
	r.Sub = map[string][]int{}
	defer func() {
		for i := len(r.cleanup) - 1; i >= 0; i-- {
			func() {
				defer func() { recover() }()
				r.cleanup[i]()
			}()
		}
		installSched(nil)
	}()
	defer func() {
		if x := recover(); x != nil {
			if hp, ok := x.(harnessPanic); ok {
				err = fmt.Errorf("harness error: %s", string(hp))
				return
			}
			st := stackNow()
			if ll, ok := x.(leakedLock); ok {
				r.Fail("leaked-lock", "", "lock still held after the run: %s would block\n%s", string(ll), trimStack(st))
				return
			}
			if !underTest(st) {
				err = fmt.Errorf("harness panic: %v\n%s", x, trimStack(st))
				return
			}
			// a panic on the (unscheduled) caller goroutine from code under test
			r.Fail("panic", "", "panic outside a scheduled task: %v\n%s", x, trimStack(st))
		}
	}()
	p.Run(r)
	return nil
}

type harnessPanic string

func harnessErr(format string, a ...interface{}) {
	panic(harnessPanic(fmt.Sprintf(format, a...)))
}

func jsonStr(x interface{}) string {
	b, _ := json.Marshal(x)
	return string(b)
}
