package main

import (
	"context"
	"fmt"
	"time"

	"github.com/anishathalye/porcupine"
	"github.com/fullstorydev/emulators/storage/gcsutil"
)

// C19 sub-workload "racing unlocks": the map keeps no record of WHO holds a key, so an Unlock by
// a caller that never locked is legal while the key is held (it releases it) and must panic
// without touching anything when the key is not held. Here such foreign Unlock calls race with
// the holder's own Unlock while other callers queue for the key, and the whole history of one
// key is checked against the model of an ownerless lock: held yes/no; Lock returns true only
// from "not held"; Unlock returns normally only from "held"; Unlock panics only from "not held"
// and changes nothing. Afterwards nobody holds or awaits the key: no entry may remain, and the
// key must be lockable at once.

type c19lIn struct {
	Lock bool
}
type c19lOut struct {
	OK bool // Lock: returned true; Unlock: returned normally (false = panicked)
}

func c19LockModel() porcupine.Model {
	return porcupine.Model{
		Init: func() interface{} { return false },
		Step: func(state, input, output interface{}) (bool, interface{}) {
			held, in, out := state.(bool), input.(c19lIn), output.(c19lOut)
			if in.Lock {
				// all Lock calls here use a background context: they return true, from "not held"
				return out.OK && !held, true
			}
			if out.OK {
				return held, false
			}
			return !held, held
		},
		DescribeOperation: func(input, output interface{}) string {
			in, out := input.(c19lIn), output.(c19lOut)
			if in.Lock {
				return fmt.Sprintf("Lock -> %v", out.OK)
			}
			if out.OK {
				return "Unlock -> returned"
			}
			return "Unlock -> panicked"
		},
	}
}

func c19RacingUnlocks(r *Run, cfg *Stream) {
	nLockers := 2 + cfg.Intn(2)
	nForeign := 1 + cfg.Intn(2)
	lm := gcsutil.NewTransientLockMap()
	s := r.NewSched()
	s.Budget = 5000
	const key = "k"
	type hop struct {
		c         int
		in        c19lIn
		out       c19lOut
		call, ret int
	}
	var hist []hop
	evt := 0
	unlock := func(c int) bool {
		evt++
		call := evt
		ok := true
		func() {
			defer func() {
				if x := recover(); x != nil {
					if _, ab := x.(abortRun); ab {
						panic(x)
					}
					if _, ll := x.(leakedLock); ll {
						panic(x)
					}
					ok = false
				}
			}()
			lm.Unlock(key)
		}()
		evt++
		hist = append(hist, hop{c, c19lIn{Lock: false}, c19lOut{OK: ok}, call, evt})
		return ok
	}
	stolen := 0
	for i := 0; i < nLockers; i++ {
		i := i
		s.Go(fmt.Sprintf("locker%d", i), func() {
			evt++
			call := evt
			ok := lm.Lock(context.Background(), key)
			evt++
			hist = append(hist, hop{i, c19lIn{Lock: true}, c19lOut{OK: ok}, call, evt})
			if !ok {
				r.Fail("false-without-cancel", "", "Lock returned false with a background context")
				return
			}
			s.Yield("critical")
			if !unlock(i) {
				stolen++ // somebody else released this caller's hold first
			}
		})
	}
	foreignOK := 0
	for i := 0; i < nForeign; i++ {
		i := i
		s.Go(fmt.Sprintf("foreign%d", i), func() {
			if unlock(nLockers + i) {
				foreignOK++
			}
		})
	}
	v := s.Run()
	r.FinishSched(s, v)
	if r.Failed() {
		return
	}
	r.nontrivial = s.Pre > 0
	if foreignOK > 0 {
		r.Probe("c19.foreign_unlock_released_a_held_key")
	}
	if foreignOK < nForeign {
		r.Probe("c19.foreign_unlock_panicked")
	}
	var ops []porcupine.Operation
	var lines []string
	for _, h := range hist {
		ops = append(ops, porcupine.Operation{ClientId: h.c, Input: h.in, Call: int64(h.call), Output: h.out, Return: int64(h.ret)})
		lines = append(lines, fmt.Sprintf("  [%d,%d] caller %d: %s", h.call, h.ret, h.c, c19LockModel().DescribeOperation(h.in, h.out)))
		r.Mix(fmt.Sprintf("%d%v%v|", h.c, h.in.Lock, h.out.OK))
	}
	r.Sample = map[string]interface{}{"mode": "racing-unlocks", "lockers": nLockers, "foreign_unlocks": nForeign, "steps": s.Steps, "preemptions": s.Pre, "policy": s.policy}
	switch porcupine.CheckOperationsTimeout(c19LockModel(), ops, 30*time.Second) {
	case porcupine.Ok:
		r.Probe("c19.racing_unlocks_linearizable")
	case porcupine.Unknown:
		r.Probe("c19.porcupine_unknown")
	case porcupine.Illegal:
		r.Fail("lock-history-illegal", "", "history of key %q has no explanation by an ownerless lock (Lock true only from free, Unlock returns only from held, Unlock panics only from free and changes nothing):\n%s", key, joinLines(lines))
		return
	}
	// quiescent: every Lock that returned true was followed by its caller's Unlock attempt, so the
	// key is free now (each successful Unlock released one hold, and a holder's own attempt only
	// panics when its hold had been released already)
	if n := lm.VerifLen(); n != 0 {
		r.Fail("leak", "", "no caller holds or awaits key %q any more, but the map retains %d entries\n%s", key, n, joinLines(lines))
		return
	}
	s2 := r.NewSched()
	s2.Budget = 500
	s2.Go("after", func() {
		if !lm.Lock(context.Background(), key) {
			r.Fail("false-without-cancel", "", "Lock returned false with a background context")
			return
		}
		lm.Unlock(key)
	})
	v2 := s2.Run()
	if v2.Kind != "" && v2.Kind != "harness" {
		v2.Msg = fmt.Sprintf("after racing unlocks nobody holds key %q, but a new Lock/Unlock pair does not go through: %s\n%s", key, v2.Msg, joinLines(lines))
	}
	r.FinishSched(s2, v2)
	if n := lm.VerifLen(); n != 0 && !r.Failed() {
		r.Fail("leak", "", "the map retains %d entries after the last Unlock\n%s", n, joinLines(lines))
	}
}
