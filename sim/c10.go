package main

import (
	"fmt"
	"net/url"
)

// C10: generation and metageneration follow the versioning laws.

func init() {
	register(&PropDef{
		ID: "C10", Level: "exploration", Quick: 12000, Thorough: 400000, QuickCap: 100,
		Rule:   "each run = one store and one wall-clock configuration (baseline: strictly increasing, advancing by nanoseconds, sub-microsecond steps or up to milliseconds per read, drawn per run; fault configurations, counted separately: stalled/coarse clock, backward step), 3-40 back-to-back requests on 2-3 names: writes by every protocol, compose, copy-to, patches with one/many/zero fields and with bodies that also name read-only fields (md5Hash, generation, metageneration, size, name, bucket, timeCreated), reads, listings, failing requests (bad MD5, failing preconditions), delete and re-create, file-store restarts; laws checked over the whole history: fresh and greater generation per content write and metageneration 1, patch => metageneration+1 with only the supplied fields merged and generation/content/size/MD5 unchanged, nothing else changes either number, and headers / upload responses / metadata GETs / listings agree; distinct = hash of (store, clock mode, shapes); non-trivial = at least 2 content writes to one name",
		Real:   []string{"gcsemu memstore.Add/UpdateMeta/Copy, filestore.Add/UpdateMeta/ReadMeta (mtime as generation), upload/patch/compose/copy handlers, listing"},
		Stub:   []string{"wall clock (simulator-owned: increasing, stalled or stepping back)", "HTTP connections (recorder)"},
		Assume: []string{"generations are opaque ordered tokens: only freshness, order and agreement between reporting places are checked", "no JSON null is sent in patches"},
		Run:    runC10,
	})
	expectedProbes["C10"] = []string{"c10.rewrite_same_name", "c10.patch_readonly_fields", "c10.patch_zero_fields", "c10.delete_recreate", "c10.clock_stalled", "c10.clock_back", "c10.listing_agrees", "c10.copy_across_buckets"}
}

func runC10(r *Run) {
	cfg := r.T.S("cfg")
	store := pickStore(r, cfg)
	mode := cfg.Weighted([]int{6, 2, 1}) // 0 baseline, 1 stalled, 2 backward
	if r.Index < 4 {
		mode = 0
	}
	nOps := 3 + cfg.Intn(38)
	clk := NewClock(0, 1_700_000_000_000_000_000)
	cs := r.T.S("clock")
	stallLeft := 0
	scale := 0
	clk.WallTick = func() int64 {
		switch mode {
		case 1:
			if stallLeft > 0 {
				stallLeft--
				r.Fault("clock_stall")
				r.Probe("c10.clock_stalled")
				return 0
			}
			if cs.Intn(4) == 3 {
				stallLeft = 1 + cs.Intn(6)
			}
		case 2:
			if cs.Intn(12) == 11 {
				r.Fault("clock_back")
				r.Probe("c10.clock_back")
				return -int64(1 + cs.Intn(3_000_000_000))
			}
		}
		if scale == 0 {
			scale = []int{2_000_000, 3, 900, 5_000_000}[cs.Intn(4)] // ns .. ms between two clock reads
		}
		d := int64(1 + cs.Intn(scale))
		r.SimWallNs += d
		return d
	}
	g := &gGen{store: store}
	names := []string{"v.txt", "dir/v2.txt", "w.bin"}
	writes := map[string]int{}
	deleted := map[string]bool{}
	spec := gSeqSpec{
		Store: store, NOps: nOps, FullEvery: []int{1, 2, 5}[cfg.Intn(3)], Restarts: true,
		Witness: func(op gOp, kind string) string {
			if kind == "generation-law" && mode == 1 {
				return "generation-equal-under-stalled-clock"
			}
			if kind == "generation-law" && mode == 2 {
				return "generation-after-backward-clock-step"
			}
			return ""
		},
		Gen: func(d *draws, m *gModel, i int) gOp {
			name := names[d.w(4, 2, 1)]
			cur := m.obj("bkt", name)
			switch d.w(7, 5, 2, 2, 2, 2, 1) {
			case 0:
				op := g.upload(d, "bkt", name, gConds{})
				if !op.BadMd5 {
					writes[name]++
					if writes[name] >= 2 {
						r.Probe("c10.rewrite_same_name")
						r.nontrivial = true
					}
					if deleted[name] {
						r.Probe("c10.delete_recreate")
					}
				}
				return op
			case 1:
				body := map[string]interface{}{}
				switch d.w(3, 3, 2, 3) {
				case 0:
					body["contentType"] = fmt.Sprintf("text/x-%d", i)
				case 1:
					body["metadata"] = map[string]string{fmt.Sprintf("k%d", i%3): fmt.Sprint(i)}
					body["cacheControl"] = "max-age=1"
					body["contentDisposition"] = "inline"
					body["contentLanguage"] = "de"
				case 2:
					r.Probe("c10.patch_zero_fields")
				default:
					r.Probe("c10.patch_readonly_fields")
					body["md5Hash"] = "AAAAAAAAAAAAAAAAAAAAAA=="
					body["generation"] = "5"
					body["metageneration"] = fmt.Sprint(1 + d.n(3))
					body["timeCreated"] = "2001-02-03T04:05:06Z"
					body["size"] = "1"
					body["name"] = "renamed"
					body["bucket"] = "elsewhere"
					body["metadata"] = map[string]string{"ro": "1"}
				}
				c := gConds{}
				if cur != nil && d.n(4) == 0 {
					c.MetaMatch = ip(cur.Metagen + int64(d.n(2)))
				}
				return gOp{Kind: "Patch", Bucket: "bkt", Name: name, Body: body, Conds: c}
			case 2:
				if m.obj("bkt", name) != nil {
					deleted[name] = true
				}
				return gOp{Kind: "Delete", Bucket: "bkt", Name: name}
			case 3:
				writes[name]++
				return gOp{Kind: "Compose", Bucket: "bkt", Name: name, Srcs: []string{names[d.n(3)], names[d.n(3)]}[:1+d.n(2)], DstMeta: map[string]interface{}{"contentType": "text/plain"}}
			case 4:
				src := names[d.n(3)]
				writes[name]++
				if d.n(3) == 2 {
					// across buckets, to the same name: the response must describe the
					// destination (its fresh generation, metageneration 1), not the source
					r.Probe("c10.copy_across_buckets")
					return gOp{Kind: "Copy", Bucket: "bkt", Name: src, DstB: "other-bucket", DstN: src}
				}
				return gOp{Kind: "Copy", Bucket: "bkt", Name: src, DstB: "bkt", DstN: name}
			case 5:
				// a failing request
				c := gConds{GenMatch: ip(1)}
				if d.n(2) == 0 {
					c = gConds{GenNotMatch: ip(gen0(cur))}
				}
				return g.upload(d, "bkt", name, c)
			default:
				return gOp{Kind: "Media", Bucket: "bkt", Name: name, Form: d.n(3)}
			}
		},
		After: func(op gOp, resp gResp, m *gModel, w *GCSWorld) bool {
			// the listing reports the same numbers as the model (the full comparison does it for
			// every object; here right after each request for the touched name)
			_, lp := w.ListPage("bkt", url.Values{"prefix": {op.Name + op.Up.Name}})
			if lp != nil {
				for _, it := range lp.Items {
					if o := m.obj("bkt", it.Name); o != nil {
						if it.Gen != o.Gen || it.Metagen != o.Metagen {
							r.Fail("listing-disagrees", "", "after %s the listing reports %s/%q generation %d metageneration %d, want %d/%d", op, "bkt", it.Name, it.Gen, it.Metagen, o.Gen, o.Metagen)
							return false
						}
						r.Probe("c10.listing_agrees")
					}
				}
			}
			return true
		},
	}
	res := runGSeq(r, spec, clk)
	r.Mix(fmt.Sprint("clock", mode))
	r.Sample = map[string]interface{}{"store": store, "clock_mode": []string{"increasing", "stalled", "backward"}[mode], "requests": len(res.Shapes), "first_ops": firstN(res.Shapes, 12)}
}

func gen0(o *gObj) int64 {
	if o == nil {
		return 5
	}
	return o.Gen
}
