package main

import (
	"encoding/binary"
	"encoding/json"
	"fmt"
	"math"
	"sort"
	"strings"

	btapb "cloud.google.com/go/bigtable/admin/apiv2/adminpb"
	btpb "cloud.google.com/go/bigtable/apiv2/bigtablepb"
)

// Reference model of the Bigtable data model, written from the property statements (C01, C06,
// C12, C13, C14, C16). It contains no implementation constant.

const maxValidTs = math.MaxInt64 - math.MaxInt64%1000

type OCell struct {
	Fam    string
	Qual   string
	Ts     int64
	Val    string
	Labels []string
}

// MarshalJSON renders a cell compactly (binary-safe, long values abbreviated).
func (c OCell) MarshalJSON() ([]byte, error) {
	s := fmt.Sprintf("%s:%q@%d=%s", c.Fam, c.Qual, c.Ts, shortVal(c.Val))
	if len(c.Labels) > 0 {
		s += fmt.Sprintf("%v", c.Labels)
	}
	return json.Marshal(s)
}

// ORow is a row as observed / as the model renders it: cells grouped by family, then
// qualifier ascending, then timestamp descending. Family order: by name in canonical form.
type ORow struct {
	Key   string
	Cells []OCell
}

func (r ORow) MarshalJSON() ([]byte, error) { return json.Marshal(r.String()) }

func (r ORow) String() string {
	var sb strings.Builder
	fmt.Fprintf(&sb, "%q{", r.Key)
	for i, c := range r.Cells {
		if i > 0 {
			sb.WriteString(" ")
		}
		fmt.Fprintf(&sb, "%s:%q@%d=%s", c.Fam, c.Qual, c.Ts, shortVal(c.Val))
		if len(c.Labels) > 0 {
			fmt.Fprintf(&sb, "%v", c.Labels)
		}
	}
	sb.WriteString("}")
	return sb.String()
}

func shortVal(v string) string {
	if len(v) > 24 {
		return fmt.Sprintf("%q..(%d bytes,h=%x)", v[:8], len(v), hashString(v)&0xffff)
	}
	return fmt.Sprintf("%q", v)
}

func rowsString(rs []ORow) string {
	var p []string
	for _, r := range rs {
		p = append(p, r.String())
	}
	return "[" + strings.Join(p, ", ") + "]"
}

// canonical sorts families by name, keeping the observed order inside a family.
func (r ORow) canonical() ORow {
	c := ORow{Key: r.Key, Cells: append([]OCell(nil), r.Cells...)}
	sort.SliceStable(c.Cells, func(i, j int) bool { return c.Cells[i].Fam < c.Cells[j].Fam })
	return c
}

func equalRows(a, b ORow) bool {
	if a.Key != b.Key || len(a.Cells) != len(b.Cells) {
		return false
	}
	for i := range a.Cells {
		x, y := a.Cells[i], b.Cells[i]
		if x.Fam != y.Fam || x.Qual != y.Qual || x.Ts != y.Ts || x.Val != y.Val || len(x.Labels) != len(y.Labels) {
			return false
		}
		for k := range x.Labels {
			if x.Labels[k] != y.Labels[k] {
				return false
			}
		}
	}
	return true
}

func equalRowLists(a, b []ORow) bool {
	if len(a) != len(b) {
		return false
	}
	for i := range a {
		if !equalRows(a[i], b[i]) {
			return false
		}
	}
	return true
}

// mRow: family -> qualifier -> ts -> value
type mRow map[string]map[string]map[int64]string

func (r mRow) clone() mRow {
	o := mRow{}
	for f, cols := range r {
		o[f] = map[string]map[int64]string{}
		for q, cells := range cols {
			o[f][q] = map[int64]string{}
			for ts, v := range cells {
				o[f][q][ts] = v
			}
		}
	}
	return o
}

func (r mRow) prune() {
	for f, cols := range r {
		for q, cells := range cols {
			if len(cells) == 0 {
				delete(cols, q)
			}
		}
		if len(cols) == 0 {
			delete(r, f)
		}
	}
}

func (r mRow) empty() bool {
	for _, cols := range r {
		for _, cells := range cols {
			if len(cells) > 0 {
				return false
			}
		}
	}
	return true
}

func (r mRow) render(key string) ORow {
	o := ORow{Key: key}
	var fams []string
	for f := range r {
		fams = append(fams, f)
	}
	sort.Strings(fams)
	for _, f := range fams {
		var quals []string
		for q := range r[f] {
			quals = append(quals, q)
		}
		sort.Strings(quals)
		for _, q := range quals {
			var tss []int64
			for ts := range r[f][q] {
				tss = append(tss, ts)
			}
			sort.Slice(tss, func(i, j int) bool { return tss[i] > tss[j] })
			for _, ts := range tss {
				o.Cells = append(o.Cells, OCell{Fam: f, Qual: q, Ts: ts, Val: r[f][q][ts]})
			}
		}
	}
	return o
}

func rowFromORow(o ORow) mRow {
	r := mRow{}
	for _, c := range o.Cells {
		if r[c.Fam] == nil {
			r[c.Fam] = map[string]map[int64]string{}
		}
		if r[c.Fam][c.Qual] == nil {
			r[c.Fam][c.Qual] = map[int64]string{}
		}
		r[c.Fam][c.Qual][c.Ts] = c.Val
	}
	return r
}

type mTable struct {
	Fams map[string]*btapb.GcRule // family -> rule (nil = none)
	Rows map[string]mRow
}

func newMTable() *mTable { return &mTable{Fams: map[string]*btapb.GcRule{}, Rows: map[string]mRow{}} }

func (t *mTable) clone() *mTable {
	o := newMTable()
	for f, g := range t.Fams {
		o.Fams[f] = g
	}
	for k, r := range t.Rows {
		o.Rows[k] = r.clone()
	}
	return o
}

func (t *mTable) sortedKeys() []string {
	var ks []string
	for k := range t.Rows {
		ks = append(ks, k)
	}
	sort.Strings(ks)
	return ks
}

func (t *mTable) render() []ORow {
	var out []ORow
	for _, k := range t.sortedKeys() {
		if !t.Rows[k].empty() {
			out = append(out, t.Rows[k].render(k))
		}
	}
	return out
}

func (t *mTable) row(key string) mRow {
	if r, ok := t.Rows[key]; ok {
		return r
	}
	return mRow{}
}

func (t *mTable) setRow(key string, r mRow) {
	r.prune()
	if r.empty() {
		delete(t.Rows, key)
	} else {
		t.Rows[key] = r
	}
}

func validTs(ts int64) bool { return ts >= 0 && ts <= maxValidTs && ts%1000 == 0 }

// applyOutcome: err != nil means the request must fail and the row stay unchanged;
// either=true means the statement leaves open whether it fails or is a no-op.
type applyOutcome struct {
	row    mRow
	err    error
	either bool
	altErr bool // the request may also legitimately fail (then nothing changes)
}

// applyMutations implements C01/C06: validate and apply in order on a copy; nothing on failure.
func (t *mTable) applyMutations(row mRow, muts []*btpb.Mutation, nowUs int64) applyOutcome {
	if len(muts) == 0 {
		return applyOutcome{row: row, either: true}
	}
	r := row.clone()
	altErr := false
	for i, m := range muts {
		switch mm := m.GetMutation().(type) {
		case *btpb.Mutation_SetCell_:
			sc := mm.SetCell
			if _, ok := t.Fams[sc.FamilyName]; !ok {
				return applyOutcome{row: row, err: fmt.Errorf("mutation %d: unknown family %q", i, sc.FamilyName)}
			}
			ts := sc.TimestampMicros
			if ts == -1 {
				ts = nowUs - nowUs%1000
			}
			if !validTs(ts) {
				return applyOutcome{row: row, err: fmt.Errorf("mutation %d: invalid timestamp %d", i, ts)}
			}
			if r[sc.FamilyName] == nil {
				r[sc.FamilyName] = map[string]map[int64]string{}
			}
			q := string(sc.ColumnQualifier)
			if r[sc.FamilyName][q] == nil {
				r[sc.FamilyName][q] = map[int64]string{}
			}
			r[sc.FamilyName][q][ts] = string(sc.Value)
		case *btpb.Mutation_DeleteFromColumn_:
			d := mm.DeleteFromColumn
			if _, ok := t.Fams[d.FamilyName]; !ok {
				return applyOutcome{row: row, err: fmt.Errorf("mutation %d: unknown family %q", i, d.FamilyName)}
			}
			var s, e int64
			if tr := d.TimeRange; tr != nil {
				s, e = tr.StartTimestampMicros, tr.EndTimestampMicros
				if !validTs(s) || (e != 0 && !validTs(e)) {
					return applyOutcome{row: row, err: fmt.Errorf("mutation %d: invalid delete range bound [%d,%d)", i, s, e)}
				}
				if e != 0 && s > e {
					return applyOutcome{row: row, err: fmt.Errorf("mutation %d: inverted delete range [%d,%d)", i, s, e)}
				}
				if e != 0 && s == e {
					altErr = true // an empty range: deletes nothing, or is rejected
				}
			}
			if cols := r[d.FamilyName]; cols != nil {
				if cells := cols[string(d.ColumnQualifier)]; cells != nil {
					for ts := range cells {
						if ts >= s && (e == 0 || ts < e) {
							delete(cells, ts)
						}
					}
				}
			}
		case *btpb.Mutation_DeleteFromFamily_:
			f := mm.DeleteFromFamily.FamilyName
			if _, ok := t.Fams[f]; !ok {
				return applyOutcome{row: row, err: fmt.Errorf("mutation %d: unknown family %q", i, f)}
			}
			delete(r, f)
		case *btpb.Mutation_DeleteFromRow_:
			r = mRow{}
		default:
			return applyOutcome{row: row, err: fmt.Errorf("mutation %d: no mutation set", i)}
		}
	}
	r.prune()
	return applyOutcome{row: r, altErr: altErr}
}

// rmw implements C13. Returns the new row and the cells written (in rule order, last write per
// column wins in the response as in the stored row).
func (t *mTable) rmw(row mRow, rules []*btpb.ReadModifyWriteRule, nowUs int64) (mRow, []OCell, error, bool) {
	if len(rules) == 0 {
		return row, nil, nil, true // either: fail or no-op
	}
	r := row.clone()
	written := map[string]OCell{}
	var order []string
	nowMs := nowUs - nowUs%1000
	for i, rule := range rules {
		if _, ok := t.Fams[rule.FamilyName]; !ok {
			return row, nil, fmt.Errorf("rule %d: unknown family %q", i, rule.FamilyName), false
		}
		q := string(rule.ColumnQualifier)
		var prev string
		have := false
		ts := nowMs
		if cols := r[rule.FamilyName]; cols != nil {
			if cells := cols[q]; len(cells) > 0 {
				var newest int64 = math.MinInt64
				for cts := range cells {
					if cts > newest {
						newest = cts
					}
				}
				prev = cells[newest]
				have = true
				if newest > ts {
					ts = newest
				}
			}
		}
		var nv string
		switch x := rule.Rule.(type) {
		case *btpb.ReadModifyWriteRule_AppendValue:
			nv = prev + string(x.AppendValue)
		case *btpb.ReadModifyWriteRule_IncrementAmount:
			var v int64
			if have {
				if len(prev) != 8 {
					return row, nil, fmt.Errorf("rule %d: increment on a %d-byte value", i, len(prev)), false
				}
				v = int64(binary.BigEndian.Uint64([]byte(prev)))
			}
			v += x.IncrementAmount
			var b [8]byte
			binary.BigEndian.PutUint64(b[:], uint64(v))
			nv = string(b[:])
		default:
			return row, nil, fmt.Errorf("rule %d: no rule set", i), false
		}
		if r[rule.FamilyName] == nil {
			r[rule.FamilyName] = map[string]map[int64]string{}
		}
		if r[rule.FamilyName][q] == nil {
			r[rule.FamilyName][q] = map[int64]string{}
		}
		r[rule.FamilyName][q][ts] = nv
		k := rule.FamilyName + "\x00" + q
		if _, ok := written[k]; !ok {
			order = append(order, k)
		}
		written[k] = OCell{Fam: rule.FamilyName, Qual: q, Ts: ts, Val: nv}
	}
	var cells []OCell
	for _, k := range order {
		cells = append(cells, written[k])
	}
	return r, cells, nil, false
}

// gcRow applies the family rules to a row (C16): returns the collected row.
func gcCells(tss []int64, rule *btapb.GcRule, nowUs int64) map[int64]bool {
	// returns the set of condemned timestamps; tss sorted descending
	cond := map[int64]bool{}
	if rule == nil {
		return cond
	}
	switch x := rule.Rule.(type) {
	case *btapb.GcRule_MaxNumVersions:
		n := int(x.MaxNumVersions)
		for i, ts := range tss {
			if i >= n {
				cond[ts] = true
			}
		}
	case *btapb.GcRule_MaxAge:
		cut := nowUs - x.MaxAge.Seconds*1e6 - int64(x.MaxAge.Nanos)/1e3
		for _, ts := range tss {
			if ts < cut {
				cond[ts] = true
			}
		}
	case *btapb.GcRule_Union_:
		for _, sub := range x.Union.Rules {
			for ts := range gcCells(tss, sub, nowUs) {
				cond[ts] = true
			}
		}
	default:
		// intersection / unset: unsupported rule type -> nothing is collected
	}
	return cond
}

func (t *mTable) gcRow(row mRow, nowUs int64) mRow {
	r := row.clone()
	for f, cols := range r {
		rule := t.Fams[f]
		if rule == nil {
			continue
		}
		for _, cells := range cols {
			var tss []int64
			for ts := range cells {
				tss = append(tss, ts)
			}
			sort.Slice(tss, func(i, j int) bool { return tss[i] > tss[j] })
			for ts := range gcCells(tss, rule, nowUs) {
				delete(cells, ts)
			}
		}
	}
	r.prune()
	return r
}

// ---- row sets (C03) -------------------------------------------------------------------------

type mBound struct {
	kind int // 0 unset, 1 open, 2 closed
	key  string
}

type mRange struct{ start, end mBound }

func (g mRange) contains(k string) bool {
	switch g.start.kind {
	case 1:
		if !(k > g.start.key) {
			return false
		}
	case 2:
		if !(k >= g.start.key) {
			return false
		}
	}
	switch g.end.kind {
	case 1:
		if !(k < g.end.key) {
			return false
		}
	case 2:
		if !(k <= g.end.key) {
			return false
		}
	}
	return true
}

// inverted: both bounds set (non-empty) and start > end.
func (g mRange) inverted() bool {
	return g.start.kind != 0 && g.end.kind != 0 && g.start.key != "" && g.end.key != "" && g.start.key > g.end.key
}

type mRowSet struct {
	keys   []string
	ranges []mRange
}

func (s mRowSet) all() bool { return len(s.keys) == 0 && len(s.ranges) == 0 }

func (s mRowSet) contains(k string) bool {
	if s.all() {
		return true
	}
	for _, x := range s.keys {
		if x == k {
			return true
		}
	}
	for _, g := range s.ranges {
		if g.contains(k) {
			return true
		}
	}
	return false
}

// rowSetExplicitEmpty: unbounded ends travel as explicitly set, empty keys (start_key_closed ""
// = from the first row, end_key_open "" = to the last; clients that fill in both members of a
// range send exactly that) instead of unset members.
var rowSetExplicitEmpty bool

func (s mRowSet) toProto() *btpb.RowSet {
	if s.all() {
		return nil
	}
	rs := &btpb.RowSet{}
	for _, k := range s.keys {
		rs.RowKeys = append(rs.RowKeys, []byte(k))
	}
	for _, g := range s.ranges {
		rr := &btpb.RowRange{}
		switch g.start.kind {
		case 1:
			rr.StartKey = &btpb.RowRange_StartKeyOpen{StartKeyOpen: []byte(g.start.key)}
		case 2:
			rr.StartKey = &btpb.RowRange_StartKeyClosed{StartKeyClosed: []byte(g.start.key)}
		}
		if rowSetExplicitEmpty {
			if g.start.kind == 0 {
				rr.StartKey = &btpb.RowRange_StartKeyClosed{StartKeyClosed: []byte{}}
			}
			if g.end.kind == 0 {
				rr.EndKey = &btpb.RowRange_EndKeyOpen{EndKeyOpen: []byte{}}
			}
		}
		switch g.end.kind {
		case 1:
			rr.EndKey = &btpb.RowRange_EndKeyOpen{EndKeyOpen: []byte(g.end.key)}
		case 2:
			rr.EndKey = &btpb.RowRange_EndKeyClosed{EndKeyClosed: []byte(g.end.key)}
		}
		rs.RowRanges = append(rs.RowRanges, rr)
	}
	return rs
}
