package main

import (
	btapb "cloud.google.com/go/bigtable/admin/apiv2/adminpb"
	"encoding/binary"
	"fmt"
	"sort"
	"time"

	btpb "cloud.google.com/go/bigtable/apiv2/bigtablepb"
	"github.com/anishathalye/porcupine"
	"google.golang.org/grpc/codes"
)

// C06: single-row writes are failure-atomic and linearizable per row.

func init() {
	register(&PropDef{
		ID: "C06", Level: "exploration", Quick: 48000, Thorough: 1500000, QuickCap: 110,
		Rule:   "each run = 2-4 client tasks x 1-5 operations (MutateRow with 1-3 valid/invalid mutations, MutateRows, CheckAndMutateRow with predicates over the contended column, ReadModifyWriteRow increments/appends, single-row reads) on 1-2 rows of one table, interleaved by the seeded scheduler at every lock operation, engine access and response marshalling; the recorded history (stamped with the global event counter) is checked per row with porcupine against the reference model, plus sum / single-winner invariants for the directed shapes; distinct = hash of the (task, scheduling point) trace and responses; non-trivial = at least one preemption",
		Real:   []string{"bttest MutateRow, MutateRows, CheckAndMutateRow, ReadModifyWriteRow, ReadRows", "btree / goleveldb-mem / goleveldb-disk engines (Get/Put/Delete through the Rows seam)"},
		Stub:   []string{"sync.Mutex/RWMutex of server and table (cooperative equivalents with the same admission rules)", "gRPC transport (direct calls; unary responses are marshalled at a later scheduling point than the handler's return)", "server clock (constant within a run)"},
		Assume: []string{"porcupine verdict Unknown (timeout) is counted, never reported", "the cooperative table mutex follows sync.RWMutex (a waiting writer keeps new readers out; readers queued at a release go first)"},
		Run:    runC06,
	})
	expectedProbes["C06"] = []string{"c06.concurrent_increments", "c06.cam_race", "c06.multi_mutation_vs_reader", "c06.overlapping_ops", "c06.invalid_kth", "c06.porcupine_ok", "c06.write_during_family_drop"}
}

type c06In struct {
	Kind   string // mutate cam rmw read
	Key    string
	Muts   mutList
	Pred   *btpb.RowFilter
	TrueM  mutList
	FalseM mutList
	Rules  []*btpb.ReadModifyWriteRule
	Desc   string
}

type c06Out struct {
	OK      bool
	Matched bool
	Row     ORow // read result or RMW response cells
	Present bool
	Err     string
}

// row state <-> string (porcupine compares states with ==)
func encRow(r mRow) string { return jsonStr(r.render("")) }

var c06Fams = map[string]*btapbGc{"f1": nil, "f2": nil}

func c06Model(nowUs int64) porcupine.Model {
	t := newMTable()
	for f := range c06Fams {
		t.Fams[f] = nil
	}
	cache := map[string]mRow{"": {}}
	dec := func(s string) mRow {
		return cache[s]
	}
	enc := func(r mRow) string {
		if r.empty() {
			return ""
		}
		o := r.render("")
		s := ""
		for _, c := range o.Cells {
			s += fmt.Sprintf("%s\x00%s\x00%d\x00%s\x01", c.Fam, c.Qual, c.Ts, c.Val)
		}
		if _, ok := cache[s]; !ok {
			cache[s] = r
		}
		return s
	}
	return porcupine.Model{
		Init: func() interface{} { return "" },
		Step: func(state, input, output interface{}) (bool, interface{}) {
			st := state.(string)
			in := input.(c06In)
			out := output.(c06Out)
			row := dec(st)
			switch in.Kind {
			case "mutate":
				o := t.applyMutations(row, in.Muts, nowUs)
				switch {
				case o.either:
					return true, st
				case o.err != nil:
					return !out.OK, st
				default:
					if !out.OK {
						return o.altErr, st
					}
					return true, enc(o.row)
				}
			case "cam":
				matched := !row.empty()
				if in.Pred != nil {
					fo := evalFilterRow(in.Pred, row.render(in.Key))
					if fo.required {
						return !out.OK, st
					}
					matched = len(fo.outs) > 0 && len(fo.outs[0]) > 0
					if fo.permitted && !out.OK {
						return true, st
					}
				}
				muts := in.FalseM
				if matched {
					muts = in.TrueM
				}
				o := t.applyMutations(row, muts, nowUs)
				switch {
				case o.either:
					if out.OK && out.Matched != matched {
						return false, st
					}
					return true, st
				case o.err != nil:
					return !out.OK, st
				default:
					if !out.OK {
						return o.altErr, st
					}
					if out.Matched != matched {
						return false, st
					}
					return true, enc(o.row)
				}
			case "rmw":
				nr, cells, err, either := t.rmw(row, in.Rules, nowUs)
				switch {
				case either:
					return true, st
				case err != nil:
					return !out.OK, st
				default:
					if !out.OK {
						return false, st
					}
					want := append([]OCell(nil), cells...)
					sortCellsMulti(want)
					got := append([]OCell(nil), out.Row.Cells...)
					sortCellsMulti(got)
					if !cellsEqual(want, got) {
						return false, st
					}
					return true, enc(nr)
				}
			case "read":
				if !out.OK {
					return false, st
				}
				if row.empty() {
					return !out.Present, st
				}
				if !out.Present {
					return false, st
				}
				return equalRows(out.Row.canonical(), row.render(out.Row.Key)), st
			}
			return false, st
		},
		DescribeOperation: func(input, output interface{}) string {
			in := input.(c06In)
			out := output.(c06Out)
			return fmt.Sprintf("%s -> ok=%v matched=%v row=%s", in.Desc, out.OK, out.Matched, out.Row)
		},
	}
}

type histOp struct {
	Client int
	In     c06In
	Out    c06Out
	Call   int64
	Ret    int64
}

func c06Preds(d *draws, contQ string) *btpb.RowFilter {
	lit := func(s string) []byte {
		c := &rx{kind: rxCat}
		for i := 0; i < len(s); i++ {
			c.subs = append(c.subs, &rx{kind: rxLit, b: s[i]})
		}
		if len(c.subs) == 0 {
			c = &rx{kind: rxEmpty}
		}
		return registerRx(c)
	}
	colq := &btpb.RowFilter{Filter: &btpb.RowFilter_ColumnQualifierRegexFilter{ColumnQualifierRegexFilter: lit(contQ)}}
	switch d.w(4, 4, 2, 2, 1, 1, 1) {
	case 0:
		return nil
	case 1:
		return colq
	case 2:
		return &btpb.RowFilter{Filter: &btpb.RowFilter_ValueRegexFilter{ValueRegexFilter: lit(fmt.Sprintf("v%d", 1+d.n(4)))}}
	case 3:
		return &btpb.RowFilter{Filter: &btpb.RowFilter_Chain_{Chain: &btpb.RowFilter_Chain{Filters: []*btpb.RowFilter{colq,
			{Filter: &btpb.RowFilter_CellsPerColumnLimitFilter{CellsPerColumnLimitFilter: 1}},
			{Filter: &btpb.RowFilter_TimestampRangeFilter{TimestampRangeFilter: &btpb.TimestampRange{StartTimestampMicros: 2000}}}}}}}
	case 4:
		return &btpb.RowFilter{Filter: &btpb.RowFilter_BlockAllFilter{BlockAllFilter: true}}
	case 5:
		return &btpb.RowFilter{Filter: &btpb.RowFilter_CellsPerRowOffsetFilter{CellsPerRowOffsetFilter: 1}}
	default:
		return &btpb.RowFilter{Filter: &btpb.RowFilter_PassAllFilter{PassAllFilter: false}} // invalid predicate
	}
}

func setCell(fam, q string, ts int64, v string) *btpb.Mutation {
	return &btpb.Mutation{Mutation: &btpb.Mutation_SetCell_{SetCell: &btpb.Mutation_SetCell{FamilyName: fam, ColumnQualifier: []byte(q), TimestampMicros: ts, Value: []byte(v)}}}
}

func runC06(r *Run) {
	cfg := r.T.S("cfg")
	if cfg.Intn(12) == 11 || r.Index == 7 {
		c06DropFamilyVsWriters(r, cfg)
		return
	}
	engine := []string{engLdbMem, engBtree, engLdbMem, engBtree, engLdbDisk}[cfg.Intn(5)]
	if r.Tier == "quick" && engine == engLdbDisk && cfg.Intn(3) != 0 {
		engine = engLdbMem
	}
	nClients := 2 + cfg.Intn(3)
	nOps := 1 + cfg.Intn(5)
	nRows := 1 + cfg.Intn(2)
	shape := cfg.Intn(8) // 0..2 directed shapes, else random mix
	if r.Index < 6 {
		shape = r.Index % 3
	}
	if r.Index == 8 || r.Index == 9 {
		shape = 3
	}
	keys := []string{"r", "r\x00"}[:nRows]
	clk := NewClock(1_700_000_000_000_321, 1_700_000_000_000_000_000)
	w := NewBTWorld(r, engine, clk, "")
	defer w.Destroy()
	const tbl = "projects/p/instances/i/tables/t"
	if _, err := w.CreateTable("projects/p/instances/i", "t", c06Fams); err != nil {
		r.Fail("setup", "", "CreateTable: %v", err)
		return
	}
	gen := &btGen{fams: []string{"f1", "f2"}, unknown: "nofam"}
	var evt int64
	var hist []histOp
	vseq := 0
	uniq := func() string { vseq++; return fmt.Sprintf("v%d", vseq) }

	// build the programs first (generation is independent of the schedule)
	type planned struct{ ops []c06In }
	plans := make([]planned, nClients)
	for c := 0; c < nClients; c++ {
		ps := r.T.S(fmt.Sprintf("prog.%d", c))
		for i := 0; i < 5; i++ {
			d := record(ps, 64)
			key := keys[d.n(nRows)]
			var in c06In
			switch shape {
			case 0: // N concurrent increments
				in = c06In{Kind: "rmw", Key: keys[0], Rules: []*btpb.ReadModifyWriteRule{{FamilyName: "f1", ColumnQualifier: []byte("c"), Rule: &btpb.ReadModifyWriteRule_IncrementAmount{IncrementAmount: 1}}}}
			case 1: // check-and-set-if-absent
				in = c06In{Kind: "cam", Key: keys[0], Pred: nil, FalseM: mutList{setCell("f1", "owner", 1000, uniq())}}
			case 2: // multi-mutation request vs readers
				if c == 0 {
					v := uniq()
					in = c06In{Kind: "mutate", Key: keys[0], Muts: mutList{setCell("f1", "a", 1000, v), setCell("f2", "b", 1000, v), setCell("f1", "c", 2000, v)}}
				} else {
					in = c06In{Kind: "read", Key: keys[0]}
				}
			default:
				if shape == 3 && c == 0 && i == 0 {
					// one request of several hundred entries (a bulk load) whose 256th, 257th, 512th
					// and 513th entries are for the contended rows, while the other clients work on them
					in = c06In{Kind: "bulk", Key: key, Muts: gen.mutations(d, 2, false), TrueM: gen.mutations(d, 2, false), FalseM: gen.mutations(d, 2, false)}
					r.Probe("c06.bulk_request_vs_single_row_writers")
					break
				}
				switch d.w(4, 3, 3, 4, 1) {
				case 0:
					in = c06In{Kind: "mutate", Key: key, Muts: gen.mutations(d, 3, false)}
				case 1:
					in = c06In{Kind: "cam", Key: key, Pred: c06Preds(d, "q"), TrueM: gen.mutations(d, 2, true), FalseM: gen.mutations(d, 2, true)}
				case 2:
					sub := d.sub(4)
					rule := &btpb.ReadModifyWriteRule{FamilyName: []string{"f1", "f1", "f2", "nofam"}[sub.n(4)], ColumnQualifier: []byte([]string{"c", "q"}[sub.n(2)])}
					if sub.n(3) == 0 {
						rule.Rule = &btpb.ReadModifyWriteRule_AppendValue{AppendValue: []byte(uniq())}
					} else {
						rule.Rule = &btpb.ReadModifyWriteRule_IncrementAmount{IncrementAmount: int64(1 + sub.n(3))}
					}
					in = c06In{Kind: "rmw", Key: key, Rules: []*btpb.ReadModifyWriteRule{rule}}
				case 3:
					in = c06In{Kind: "read", Key: key}
				default:
					in = c06In{Kind: "mutaterows", Key: key, Muts: gen.mutations(d, 2, false), TrueM: gen.mutations(d, 2, false)}
				}
			}
			if i < nOps {
				plans[c].ops = append(plans[c].ops, in)
			}
		}
	}
	switch shape {
	case 0:
		r.Probe("c06.concurrent_increments")
	case 1:
		r.Probe("c06.cam_race")
	case 2:
		r.Probe("c06.multi_mutation_vs_reader")
	}

	s := r.NewSched()
	s.Budget = 20000
	record1 := func(c int, in c06In, call int64, out c06Out) {
		evt++
		hist = append(hist, histOp{Client: c, In: in, Out: out, Call: call, Ret: evt})
	}
	readOut := func(rr readResult, key string) c06Out {
		out := c06Out{OK: rr.Err == nil && rr.Bad == nil}
		if rr.Bad != nil {
			out.Err = rr.Bad.Error()
		}
		if rr.Err != nil {
			out.Err = rr.Err.Error()
		}
		if len(rr.Rows) == 1 {
			out.Present, out.Row = true, rr.Rows[0]
		} else if len(rr.Rows) > 1 {
			out.OK, out.Err = false, "more than one row for a single-key read"
		}
		return out
	}
	for c := 0; c < nClients; c++ {
		c := c
		s.Go(fmt.Sprintf("c%d", c), func() {
			for _, in := range plans[c].ops {
				if r.Failed() {
					return
				}
				evt++
				call := evt
				switch in.Kind {
				case "mutate":
					in.Desc = fmt.Sprintf("MutateRow %q %s", in.Key, mutsString(in.Muts))
					err := w.MutateRow(tbl, in.Key, in.Muts)
					record1(c, in, call, c06Out{OK: err == nil, Err: errStr(err)})
				case "mutaterows":
					// two entries: the drawn key and the other key (or the same key twice)
					k2 := keys[len(keys)-1]
					entries := []entryIn{{Key: in.Key, Muts: in.Muts}, {Key: k2, Muts: in.TrueM}}
					cs, err := w.MutateRows(tbl, entries)
					evt++
					ret := evt
					for i, e := range entries {
						ein := c06In{Kind: "mutate", Key: e.Key, Muts: e.Muts, Desc: fmt.Sprintf("MutateRows entry %d %q %s", i, e.Key, mutsString(e.Muts))}
						ok := err == nil && cs[i] == codes.OK
						// entries of one request are applied in order: give them nested, ordered windows
						hist = append(hist, histOp{Client: c*10 + i, In: ein, Out: c06Out{OK: ok, Err: errStr(err)}, Call: call, Ret: ret})
					}
					if err != nil {
						r.Fail("mutaterows-failed", "", "MutateRows stream failed: %v", err)
					}
				case "bulk":
					k2 := keys[len(keys)-1]
					var entries []entryIn
					// every other run sends 1300 entries instead (the contended rows then sit at
					// 255, 256, 1100 and 1101)
					nBulk, p3, p4 := 530, 511, 512
					if r.Index%2 == 1 {
						nBulk, p3, p4 = 1300, 1100, 1101
						r.Probe("c06.bulk_request_over_1024_entries")
					}
					at := map[int]entryIn{255: {Key: in.Key, Muts: in.Muts}, 256: {Key: k2, Muts: in.TrueM}, p3: {Key: in.Key, Muts: in.FalseM}, p4: {Key: k2, Muts: in.Muts}}
					for i := 0; i < nBulk; i++ {
						if e, ok := at[i]; ok {
							entries = append(entries, e)
						} else {
							entries = append(entries, entryIn{Key: fmt.Sprintf("m%04d", i), Muts: mutList{setCell("f1", "q", 1000, "fill")}})
						}
					}
					cs, err := w.MutateRows(tbl, entries)
					evt++
					ret := evt
					for _, i := range []int{255, 256, p3, p4} {
						e := entries[i]
						ein := c06In{Kind: "mutate", Key: e.Key, Muts: e.Muts, Desc: fmt.Sprintf("MutateRows (%d entries) entry %d %q %s", nBulk, i, e.Key, mutsString(e.Muts))}
						ok := err == nil && cs[i] == codes.OK
						hist = append(hist, histOp{Client: c*1000 + i, In: ein, Out: c06Out{OK: ok, Err: errStr(err)}, Call: call, Ret: ret})
					}
					if err != nil {
						r.Fail("mutaterows-failed", "", "MutateRows stream failed: %v", err)
					}
				case "cam":
					in.Desc = fmt.Sprintf("CheckAndMutate %q pred=%s true=%s false=%s", in.Key, filterString(in.Pred), mutsString(in.TrueM), mutsString(in.FalseM))
					m, err := w.CheckAndMutate(tbl, in.Key, in.Pred, in.TrueM, in.FalseM)
					record1(c, in, call, c06Out{OK: err == nil, Matched: m, Err: errStr(err)})
				case "rmw":
					in.Desc = fmt.Sprintf("ReadModifyWrite %q %s", in.Key, rulesString(in.Rules))
					row, err := w.RMW(tbl, in.Key, in.Rules)
					out := c06Out{OK: err == nil, Err: errStr(err)}
					if row != nil {
						out.Row = *row
					}
					record1(c, in, call, out)
				case "read":
					in.Desc = fmt.Sprintf("ReadRow %q", in.Key)
					rr := w.ReadRow(tbl, in.Key)
					record1(c, in, call, readOut(rr, in.Key))
				}
			}
		})
	}
	v := s.Run()
	r.FinishSched(s, v)
	if r.Failed() {
		return
	}
	// final state: one more read per key, after everything
	for _, k := range keys {
		evt++
		call := evt
		rr := w.ReadRow(tbl, k)
		record1(99, c06In{Kind: "read", Key: k, Desc: fmt.Sprintf("final ReadRow %q", k)}, call, readOut(rr, k))
	}
	// overlap probe
	for i := range hist {
		for j := range hist {
			if i != j && hist[i].Client != hist[j].Client && hist[i].Call < hist[j].Ret && hist[j].Call < hist[i].Ret && hist[i].In.Kind != "read" && hist[j].In.Kind != "read" {
				r.Probe("c06.overlapping_ops")
				i = len(hist) - 1
				break
			}
		}
	}
	for _, h := range hist {
		if h.In.Kind == "mutate" && !h.Out.OK && len(h.In.Muts) > 1 {
			r.Probe("c06.invalid_kth")
		}
		r.Mix(fmt.Sprintf("%v%v%s|", h.Out.OK, h.Out.Matched, h.Out.Row))
		r.Hist(map[string]interface{}{"client": h.Client, "op": h.In.Desc, "call": h.Call, "ret": h.Ret, "ok": h.Out.OK, "matched": h.Out.Matched, "row": h.Out.Row, "err": h.Out.Err})
	}
	r.Sample = map[string]interface{}{"engine": engine, "clients": nClients, "ops_each": nOps, "rows": nRows, "shape": shape, "steps": s.Steps, "preemptions": s.Pre, "history_len": len(hist)}

	// cheap invariants for the directed shapes
	switch shape {
	case 0:
		n := 0
		for _, p := range plans {
			n += len(p.ops)
		}
		last := hist[len(hist)-len(keys)]
		var got int64 = -1
		for _, c := range last.Out.Row.Cells {
			if c.Qual == "c" && len(c.Val) == 8 {
				got = int64(binary.BigEndian.Uint64([]byte(c.Val)))
			}
		}
		if got != int64(n) {
			r.Fail("lost-update", "", "%d concurrent increments of 1 ended with counter %d (row %s)", n, got, last.Out.Row)
			return
		}
	case 1:
		winners := 0
		for _, h := range hist {
			if h.In.Kind == "cam" && h.Out.OK && !h.Out.Matched {
				winners++
			}
		}
		if winners != 1 {
			r.Fail("cam-exclusivity", "", "%d check-and-set-if-absent requests saw the row absent (exactly one must)", winners)
			return
		}
	}

	// linearizability per row
	var ops []porcupine.Operation
	for _, h := range hist {
		ops = append(ops, porcupine.Operation{ClientId: h.Client, Input: h.In, Call: h.Call, Output: h.Out, Return: h.Ret})
	}
	model := c06Model(clk.ServerUs)
	byKey := map[string][]porcupine.Operation{}
	for _, o := range ops {
		k := o.Input.(c06In).Key
		byKey[k] = append(byKey[k], o)
	}
	var ks []string
	for k := range byKey {
		ks = append(ks, k)
	}
	sort.Strings(ks)
	for _, k := range ks {
		res := porcupine.CheckOperationsTimeout(model, byKey[k], 30*time.Second)
		switch res {
		case porcupine.Ok:
			r.Probe("c06.porcupine_ok")
		case porcupine.Unknown:
			r.Probe("c06.porcupine_unknown")
		case porcupine.Illegal:
			var lines []string
			for _, o := range byKey[k] {
				in, out := o.Input.(c06In), o.Output.(c06Out)
				lines = append(lines, fmt.Sprintf("  [%d,%d] client %d: %s -> ok=%v matched=%v row=%s %s", o.Call, o.Return, o.ClientId, in.Desc, out.OK, out.Matched, out.Row, out.Err))
			}
			r.Fail("non-linearizable", "", "history of row %q has no linearization (engine %s):\n%s", k, engine, joinLines(lines))
			return
		}
	}
}

func errStr(err error) string {
	if err == nil {
		return ""
	}
	return err.Error()
}

func joinLines(l []string) string {
	s := ""
	for i, x := range l {
		if i > 0 {
			s += "\n"
		}
		s += x
	}
	return s
}

// c06DropFamilyVsWriters: a table of a few hundred rows; one task drops a family that every row
// holds cells in (the purge walks the whole table) while other tasks write single rows in another
// family. A single-row write that was acknowledged takes effect entirely: whatever the purge does
// to the dropped family, none of the acknowledged cells of the other family may be missing
// afterwards.
func c06DropFamilyVsWriters(r *Run, cfg *Stream) {
	engine := []string{engLdbMem, engLdbMem, engLdbDisk}[cfg.Intn(3)]
	nRows := []int{40, 150, 260}[cfg.Intn(3)]
	nWriters := 1 + cfg.Intn(3)
	clk := NewClock(1_700_000_000_000_321, 1_700_000_000_000_000_000)
	w := NewBTWorld(r, engine, clk, "")
	defer w.Destroy()
	const tbl = "projects/p/instances/i/tables/t"
	if _, err := w.CreateTable("projects/p/instances/i", "t", c06Fams); err != nil {
		r.Fail("setup", "", "CreateTable: %v", err)
		return
	}
	var entries []entryIn
	for i := 0; i < nRows; i++ {
		muts := mutList{setCell("f2", "d", 1000, "drop-me")}
		if i%2 == 0 {
			muts = append(muts, setCell("f1", "k", 1000, "keep"))
		}
		entries = append(entries, entryIn{Key: fmt.Sprintf("row%04d", i), Muts: muts})
	}
	if !c16Write(r, w, tbl, entries) {
		return
	}
	s := r.NewSched()
	s.Budget = 2000000
	acked := map[string][]string{} // row -> qualifiers of acknowledged f1 writes
	dropDone := false
	during := 0
	for j := 0; j < nWriters; j++ {
		j := j
		ps := r.T.S(fmt.Sprintf("prog.%d", j))
		var rows []int
		for i := 0; i < 6; i++ {
			rows = append(rows, record(ps, 2).n(nRows))
		}
		s.Go(fmt.Sprintf("w%d", j), func() {
			for i, idx := range rows {
				if r.Failed() {
					return
				}
				k := fmt.Sprintf("row%04d", idx)
				q := fmt.Sprintf("w%d.%d", j, i)
				if err := w.MutateRow(tbl, k, mutList{setCell("f1", q, 2000, "acked")}); err != nil {
					r.Fail("writer-failed", "", "MutateRow %q f1:%s: %v", k, q, err)
					return
				}
				acked[k] = append(acked[k], q)
				if !dropDone {
					during++
				}
			}
		})
	}
	s.Go("drop", func() {
		_, err := w.ModifyFamilies(tbl, []*btapb.ModifyColumnFamiliesRequest_Modification{{Id: "f2", Mod: &btapb.ModifyColumnFamiliesRequest_Modification_Drop{Drop: true}}})
		dropDone = true
		if err != nil {
			r.Fail("drop-failed", "", "ModifyColumnFamilies(drop f2): %v", err)
		}
	})
	v := s.Run()
	r.FinishSched(s, v)
	r.Sample = map[string]interface{}{"mode": "drop-family-vs-writers", "engine": engine, "rows": nRows, "writers": nWriters, "steps": s.Steps, "preemptions": s.Pre, "writes_before_drop_returned": during}
	if r.Failed() {
		return
	}
	if during > 0 {
		r.Probe("c06.write_during_family_drop")
	}
	rr := w.ReadAll(tbl)
	if rr.Err != nil || rr.Bad != nil {
		r.Fail("read-failed", "", "%v %v", rr.Err, rr.Bad)
		return
	}
	got := map[string]map[string]bool{}
	for _, row := range rr.Rows {
		got[row.Key] = map[string]bool{}
		for _, c := range row.Cells {
			if c.Fam == "f2" {
				r.Fail("dropped-family-visible", "", "row %q still shows a cell of the dropped family: %s", row.Key, row)
				return
			}
			got[row.Key][c.Qual] = true
		}
	}
	var ks []string
	for k := range acked {
		ks = append(ks, k)
	}
	sort.Strings(ks)
	for _, k := range ks {
		for _, q := range acked[k] {
			if !got[k][q] {
				r.Fail("lost-update", "", "MutateRow %q f1:%s was acknowledged while a family drop was purging the table, but the cell is gone afterwards (row now: %v)", k, q, got[k])
				return
			}
		}
		r.Mix(k + fmt.Sprint(len(acked[k])))
	}
}
