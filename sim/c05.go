package main

import (
	"fmt"
	"sort"

	btpb "cloud.google.com/go/bigtable/apiv2/bigtablepb"
	"google.golang.org/grpc/codes"
)

// C05: row filter semantics against the independent evaluator.

func init() {
	register(&PropDef{
		ID: "C05", Level: "exploration", Quick: 24000, Thorough: 300000, QuickCap: 100,
		Rule:   "each run = one engine, a drawn table (2-6 rows x 1-3 families x several columns and versions, binary qualifiers and values) and 8 filtered ReadRows: one directed leaf filter (17 kinds x valid/invalid, visited by seeded permutation), one directed depth-2 composition (chain/interleave/condition x leaf x leaf, by permutation), the rest random trees of depth <= 3 with boundary arguments; every returned row is compared with the evaluator's admissible outputs; distinct = hash of (engine, filter shapes); non-trivial = a filter with at least one composite node or an invalid argument",
		Real:   []string{"bttest ReadRows, filterRow, includeCell, modifyCell, newRegexp (binaryregexp)", "all three engines"},
		Stub:   []string{"gRPC transport", "the row-sample random source (drawn from the rng stream)"},
		Assume: []string{"family order and the order of equal-timestamp duplicates after an interleave are unspecified (compared as multisets)", "count-sensitive filters are not generated after an interleave in a chain", "filters whose validity the statement leaves open (limit 0, start > end ranges, strip_value=false) may be rejected or return nothing", "an invalid node that evaluation never reaches may be rejected (eager) or ignored (lazy)"},
		Run:    runC05,
		Subspaces: func() map[string]int {
			return map[string]int{"c05.leaf": leafKinds * 2, "c05.depth2": 3 * leafKinds * leafKinds}
		},
	})
	expectedProbes["C05"] = []string{"c05.required_invalid", "c05.invalid_node_unreached", "c05.permitted_invalid", "c05.sample_node", "c05.row_dropped", "c05.interleave_dups", "c05.label", "c05.condition_false_branch"}
}

var c05Quals = []string{"q", "", "q\x00", "r", "\xff", "a.b", "\x00\x01", "q\nr", "2q"}
var c05Vals = []string{"v", "", "\x00", "\xff\xfe", "abc", "ab", "a.c", "12345678", "v1", "v2", "x(y", "[z]", "a\nc", "\n"}
var c05Keys = []string{"a", "a\x00", "ab", "b", "\x00", "\xff", "row.1", "row-2", "row\n1"}

// buildFilterTable writes a drawn table through MutateRows and returns the observed rows.
func buildFilterTable(r *Run, w *BTWorld, tbl string, fams []string, d *draws) ([]ORow, bool) {
	nRows := 2 + d.n(5)
	var entries []entryIn
	for i := 0; i < 6; i++ {
		key := c05Keys[d.n(len(c05Keys))]
		var muts mutList
		nCells := 1 + d.n(7)
		for c := 0; c < 8; c++ {
			m := &btpb.Mutation{Mutation: &btpb.Mutation_SetCell_{SetCell: &btpb.Mutation_SetCell{
				FamilyName: fams[d.n(len(fams))], ColumnQualifier: []byte(c05Quals[d.w(5, 2, 2, 3, 1, 1, 1, 2, 3)]),
				TimestampMicros: int64(1+d.n(4)) * 1000, Value: []byte(c05Vals[d.n(len(c05Vals))])}}}
			if c < nCells {
				muts = append(muts, m)
			}
		}
		if i < nRows {
			entries = append(entries, entryIn{Key: key, Muts: muts})
		}
	}
	cs, err := w.MutateRows(tbl, entries)
	if err != nil {
		r.Fail("setup", "", "MutateRows failed: %v", err)
		return nil, false
	}
	for i, c := range cs {
		if c != codes.OK {
			r.Fail("setup", "", "entry %d rejected: %v", i, c)
			return nil, false
		}
	}
	rr := w.ReadAll(tbl)
	if rr.Err != nil || rr.Bad != nil {
		r.Fail("setup", "", "unfiltered read failed: %v %v", rr.Err, rr.Bad)
		return nil, false
	}
	return rr.Rows, true
}

// checkFilteredRead compares a filtered read with the evaluator. limit/rowset are handled by
// the caller (C03); here the whole table is scanned.
func checkFilteredRead(r *Run, op string, f *btpb.RowFilter, base []ORow, resp readResult) bool {
	if resp.Bad != nil {
		r.Fail("malformed-stream", "", "%s: %v", op, resp.Bad)
		return false
	}
	stat := staticInvalid(f)
	var want [][][]OCell // per base row: admissible outputs
	required := -1
	reqMsg := ""
	for i, row := range base {
		fo := evalFilterRow(f, row)
		if fo.required {
			required, reqMsg = i, fo.requiredMsg
			break
		}
		if fo.permitted {
			stat = true
		}
		want = append(want, fo.outs)
	}
	code := codeOf(resp.Err)
	if required < 0 && staticRequired(f) {
		// no stored row reaches the invalid node (or the table is empty): the filter is
		// invalid all the same and must not be ignored
		r.Probe("c05.invalid_node_unreached")
		if code != codes.InvalidArgument {
			r.Fail("invalid-filter-accepted", "", "%s: the filter holds an invalid node that no stored row reaches; it must be rejected with InvalidArgument all the same, but the read ended with %v (%v)", op, code, resp.Err)
			return false
		}
		return true
	}
	if required >= 0 {
		r.Probe("c05.required_invalid")
		if code != codes.InvalidArgument {
			r.Fail("invalid-filter-accepted", "", "%s: evaluation of row %q reaches an invalid filter (%s) but the read ended with %v (%v)", op, base[required].Key, reqMsg, code, resp.Err)
			return false
		}
		return true
	}
	if code == codes.InvalidArgument {
		if stat {
			r.Probe("c05.permitted_invalid")
			return true
		}
		r.Fail("valid-filter-rejected", "", "%s: rejected with InvalidArgument (%v) but every node is valid", op, resp.Err)
		return false
	}
	if code != codes.OK {
		r.Fail("read-failed", "", "%s: %v (%v)", op, code, resp.Err)
		return false
	}
	if stat {
		r.Probe("c05.permitted_invalid")
	}
	// walk base rows and response rows together
	j := 0
	for i, row := range base {
		var got []OCell
		present := false
		if j < len(resp.Rows) && resp.Rows[j].Key == row.Key {
			got = append([]OCell(nil), resp.Rows[j].Cells...)
			if err := checkRowShape(resp.Rows[j], true); err != nil {
				r.Fail("row-shape", "", "%s: %v", op, err)
				return false
			}
			present = true
			j++
		}
		sortCellsMulti(got)
		ok := false
		for _, adm := range want[i] {
			if len(adm) == 0 && !present {
				ok = true
			}
			if len(adm) > 0 && present && cellsEqual(adm, got) {
				ok = true
			}
		}
		if !ok {
			var alts []string
			for _, adm := range want[i] {
				alts = append(alts, ORow{Key: row.Key, Cells: adm}.String())
			}
			gs := "row omitted"
			if present {
				gs = ORow{Key: row.Key, Cells: got}.String()
			}
			r.Fail("filter-mismatch", "", "%s\n  row as stored: %s\n  got:  %s\n  admissible: %v", op, row, gs, alts)
			return false
		}
		if !present {
			r.Probe("c05.row_dropped")
		}
	}
	if j != len(resp.Rows) {
		r.Fail("filter-mismatch", "", "%s: response contains row %q that is not in the table or out of order", op, resp.Rows[j].Key)
		return false
	}
	return true
}

func filterShape(f *btpb.RowFilter) string {
	if f == nil {
		return "-"
	}
	switch x := f.Filter.(type) {
	case *btpb.RowFilter_Chain_:
		s := "C("
		for _, c := range x.Chain.Filters {
			s += filterShape(c)
		}
		return s + ")"
	case *btpb.RowFilter_Interleave_:
		s := "I("
		for _, c := range x.Interleave.Filters {
			s += filterShape(c)
		}
		return s + ")"
	case *btpb.RowFilter_Condition_:
		return "?(" + filterShape(x.Condition.PredicateFilter) + filterShape(x.Condition.TrueFilter) + filterShape(x.Condition.FalseFilter) + ")"
	}
	return fmt.Sprintf("%T", f.Filter)[len("*bigtablepb.RowFilter_"):][:3]
}

func noteFilterProbes(r *Run, f *btpb.RowFilter) {
	if f == nil {
		return
	}
	if countSamples(f) > 0 {
		r.Probe("c05.sample_node")
	}
	if hasInterleave(f) {
		r.Probe("c05.interleave_dups")
	}
	if hasLabel(f) {
		r.Probe("c05.label")
	}
	if c, ok := f.Filter.(*btpb.RowFilter_Condition_); ok && c.Condition.FalseFilter != nil {
		r.Probe("c05.condition_false_branch")
	}
}

func runC05(r *Run) {
	cfg := r.T.S("cfg")
	engine := pickEngine(r, cfg)
	nf := 1 + cfg.Intn(3)
	fams := []string{"f1", "f12", "f3"}[:nf] // f1+"2q" and f12+"q" concatenate to the same bytes
	clk := NewClock(1_700_000_000_000_000, 1_700_000_000_000_000_000)
	simRng = r.T.S("rng")
	defer func() { simRng = nil }()
	w := NewBTWorld(r, engine, clk, "")
	defer w.Destroy()
	const tbl = "projects/p/instances/i/tables/t"
	fm := map[string]*btapbGc{}
	for _, f := range fams {
		fm[f] = nil
	}
	if _, err := w.CreateTable("projects/p/instances/i", "t", fm); err != nil {
		r.Fail("setup", "", "CreateTable: %v", err)
		return
	}
	ps := r.T.S("prog.0")
	base, ok := buildFilterTable(r, w, tbl, fams, record(ps, 240))
	if !ok {
		return
	}
	g := &filterGen{rows: base, fams: fams, maxDepth: 3, invalid: true, sample: true}
	r.Mix(engine)
	var shapes []string
	permLeaf := newPerm(leafKinds*2, r.Master)
	permD2 := newPerm(3*leafKinds*leafKinds, r.Master+7)
	for i := 0; i < 8 && !r.Failed(); i++ {
		d := record(ps, 700)
		var f *btpb.RowFilter
		switch i {
		case 0:
			idx := permLeaf.at(r.Index)
			r.Visit("c05.leaf", idx)
			g.forceInv = 1 + idx/leafKinds
			f = g.leaf(d, idx%leafKinds, true)
			g.forceInv = 0
		case 1:
			idx := permD2.at(r.Index)
			r.Visit("c05.depth2", idx)
			comp, a, b := idx/(leafKinds*leafKinds), (idx/leafKinds)%leafKinds, idx%leafKinds
			g.forceInv = 1
			la := g.leaf(d, a, true)
			lb := g.leaf(d, b, comp != 1 || true)
			g.forceInv = 0
			if hasLabel(la) && hasLabel(lb) && comp == 0 { // (a strip after a label is fine: the label stays)
				lb = &btpb.RowFilter{Filter: &btpb.RowFilter_PassAllFilter{PassAllFilter: true}}
			}
			switch comp {
			case 0:
				f = &btpb.RowFilter{Filter: &btpb.RowFilter_Chain_{Chain: &btpb.RowFilter_Chain{Filters: []*btpb.RowFilter{la, lb}}}}
			case 1:
				f = &btpb.RowFilter{Filter: &btpb.RowFilter_Interleave_{Interleave: &btpb.RowFilter_Interleave{Filters: []*btpb.RowFilter{la, lb}}}}
			default:
				f = &btpb.RowFilter{Filter: &btpb.RowFilter_Condition_{Condition: &btpb.RowFilter_Condition{PredicateFilter: la, TrueFilter: lb, FalseFilter: g.leaf(d, d.n(leafKinds), true)}}}
			}
		case 2:
			// interleave of branches that select DISJOINT columns, listed out of qualifier order,
			// followed by a count-sensitive filter: the pooled result is sorted before the next
			// filter sees it (no duplicates here, so the order is fully determined)
			f = c05DisjointInterleave(d, base, fams)
			if f == nil {
				g.nSamples = 0
				f = g.tree(d, 0, true)
			} else {
				r.Probe("c05.count_after_disjoint_interleave")
			}
		default:
			g.nSamples = 0
			f = g.tree(d, 0, true)
		}
		noteFilterProbes(r, f)
		sh := filterShape(f)
		shapes = append(shapes, sh)
		if len(sh) > 3 || staticInvalid(f) {
			r.nontrivial = true
		}
		op := "ReadRows filter=" + filterString(f)
		resp := w.ReadRows(&btpb.ReadRowsRequest{TableName: tbl, Filter: f})
		r.Hist(map[string]interface{}{"op": op, "code": codeOf(resp.Err).String(), "rows": resp.Rows})
		if !checkFilteredRead(r, op, f, base, resp) {
			break
		}
	}
	for _, s := range shapes {
		r.Mix(s)
	}
	r.Sample = map[string]interface{}{"engine": engine, "rows": base, "filters": firstN(shapes, 8)}
}

// c05DisjointInterleave: chain[family f, interleave[qualifier = b, qualifier = a] (b > a), X] with
// X in {cells_per_row_limit 1, cells_per_row_offset 1, cells_per_column_limit 1}; nil if no row
// has two distinct plain qualifiers in one family.
func c05DisjointInterleave(d *draws, base []ORow, fams []string) *btpb.RowFilter {
	fam := fams[d.n(len(fams))]
	seen := map[string]bool{}
	var quals []string
	for _, row := range base {
		for _, c := range row.Cells {
			if c.Fam == fam && !seen[c.Qual] {
				seen[c.Qual] = true
				quals = append(quals, c.Qual)
			}
		}
	}
	if len(quals) < 2 {
		d.n(1)
		d.n(1)
		d.n(1)
		return nil
	}
	sort.Strings(quals)
	i := d.n(len(quals) - 1)
	j := i + 1 + d.n(len(quals)-i-1)
	lit := func(q string) *btpb.RowFilter {
		c := &rx{kind: rxCat}
		for k := 0; k < len(q); k++ {
			c.subs = append(c.subs, &rx{kind: rxLit, b: q[k]})
		}
		var node *rx = c
		if len(c.subs) == 0 {
			node = &rx{kind: rxEmpty}
		}
		return &btpb.RowFilter{Filter: &btpb.RowFilter_ColumnQualifierRegexFilter{ColumnQualifierRegexFilter: registerRx(node)}}
	}
	famF := &btpb.RowFilter{Filter: &btpb.RowFilter_FamilyNameRegexFilter{FamilyNameRegexFilter: string(registerRx(&rx{kind: rxCat, subs: func() []*rx {
		var l []*rx
		for k := 0; k < len(fam); k++ {
			l = append(l, &rx{kind: rxLit, b: fam[k]})
		}
		return l
	}()}))}}
	inter := &btpb.RowFilter{Filter: &btpb.RowFilter_Interleave_{Interleave: &btpb.RowFilter_Interleave{Filters: []*btpb.RowFilter{lit(quals[j]), lit(quals[i])}}}}
	var x *btpb.RowFilter
	switch d.n(3) {
	case 0:
		x = &btpb.RowFilter{Filter: &btpb.RowFilter_CellsPerRowLimitFilter{CellsPerRowLimitFilter: 1}}
	case 1:
		x = &btpb.RowFilter{Filter: &btpb.RowFilter_CellsPerRowOffsetFilter{CellsPerRowOffsetFilter: 1}}
	default:
		x = &btpb.RowFilter{Filter: &btpb.RowFilter_CellsPerColumnLimitFilter{CellsPerColumnLimitFilter: 1}}
	}
	return &btpb.RowFilter{Filter: &btpb.RowFilter_Chain_{Chain: &btpb.RowFilter_Chain{Filters: []*btpb.RowFilter{famF, inter, x}}}}
}
