package main

import (
	"fmt"
	"os"
	"strings"

	btapb "cloud.google.com/go/bigtable/admin/apiv2/adminpb"
)

// C08, concurrent-administration part. Two or three clients administer and write the SAME tables
// at once (create, delete, re-create, schema changes with GC rules, row writes, prefix drops);
// every request is acknowledged before the stop. Whatever serial order the emulator chose, the
// state it serves once all clients are done is "what was acknowledged"; after a kill between
// requests or a clean stop, a new emulator on that directory must serve exactly that state
// (tables, families with GC rules, rows). No model of the concurrent program is needed: the
// oracle is the emulator's own quiescent state before the stop against the state after restart.

func c08ConcurrentAdmin(r *Run, cfg *Stream) {
	nClients := 2 + cfg.Intn(2)
	nOps := 2 + cfg.Intn(6)
	cycles := 1 + cfg.Intn(2)
	clean := cfg.Intn(3) == 0
	clk := NewClock(1_700_000_000_000_000+int64(cfg.Intn(1000)), 1_700_000_000_000_000_000)
	ldbYieldOn = true
	simChoose = r.T.S("fault.order")
	defer func() { ldbYieldOn, simChoose = false, nil }()
	dir := scratchDir("bt-c08c-")
	r.Defer(func() { os.RemoveAll(dir) })
	tables := []string{"projects/p/instances/i1/tables/t", "projects/p/instances/i1/tables/t2"}
	ruleA := &btapb.GcRule{Rule: &btapb.GcRule_MaxNumVersions{MaxNumVersions: 2}}
	ruleB := &btapb.GcRule{Rule: &btapb.GcRule_MaxNumVersions{MaxNumVersions: 5}}
	seq := 0
	var crashInfo []string
	var before string
	for cycle := 0; cycle <= cycles; cycle++ {
		var w *BTWorld
		failedStart := false
		func() {
			defer func() {
				if x := recover(); x != nil {
					st := stackNow()
					if _, ok := x.(harnessPanic); ok || !underTest(st) {
						panic(x)
					}
					failedStart = true
					r.Fail("restart-failed", "", "the emulator does not start on the directory left by %s: %v\n%s", strings.Join(crashInfo, "; "), x, trimStack(st))
				}
			}()
			w = NewBTWorld(r, engLdbDisk, clk, dir)
		}()
		if failedStart || r.Failed() {
			return
		}
		if len(w.ErrLog) > 0 {
			r.Fail("restart-errlog", "", "start-up logged errors (%s): %v", strings.Join(crashInfo, "; "), w.ErrLog)
			closeQuietly(w)
			return
		}
		if cycle > 0 {
			obs, err := observeAll(w)
			if err != nil {
				r.Fail("recovered-read-failed", "", "%v (%s)", err, strings.Join(crashInfo, "; "))
				closeQuietly(w)
				return
			}
			if after := modelString(obs); after != before {
				r.Fail("recovered-state", "concurrent-admin", "after %s the emulator serves a state different from the one it served, with every request acknowledged, before the stop\n  before the stop:\n%s  after the restart:\n%s", strings.Join(crashInfo, "; "), indent(before), indent(after))
				closeQuietly(w)
				return
			}
			r.Probe("c08.concurrent_admin_restart_equal")
		}
		if cycle == cycles {
			closeQuietly(w)
			break
		}
		s := r.NewSched()
		s.Budget = 400000
		for c := 0; c < nClients; c++ {
			c := c
			ps := r.T.S(fmt.Sprintf("prog.%d", c))
			s.Go(fmt.Sprintf("c%d", c), func() {
				for i := 0; i < 8 && !r.Failed(); i++ {
					d := record(ps, 8)
					if i >= nOps {
						continue
					}
					t := tables[d.w(3, 1)]
					seq++
					var op btOp
					switch d.w(4, 3, 3, 5, 1, 2, 1) {
					case 0:
						fams := map[string]*btapb.GcRule{"f1": nil}
						if d.n(2) == 1 {
							fams["f2"] = ruleA
						}
						parts := strings.Split(t, "/tables/")
						op = btOp{Kind: "CreateTable", Parent: parts[0], TableID: parts[1], Fams: fams}
					case 1:
						op = btOp{Kind: "DeleteTable", Table: t}
					case 2:
						mod := &btapb.ModifyColumnFamiliesRequest_Modification{Id: "f2"}
						switch d.n(3) {
						case 0:
							mod.Mod = &btapb.ModifyColumnFamiliesRequest_Modification_Create{Create: &btapb.ColumnFamily{GcRule: ruleB}}
						case 1:
							mod.Mod = &btapb.ModifyColumnFamiliesRequest_Modification_Update{Update: &btapb.ColumnFamily{GcRule: []*btapb.GcRule{ruleA, ruleB, nil}[d.n(3)]}}
						default:
							mod.Mod = &btapb.ModifyColumnFamiliesRequest_Modification_Drop{Drop: true}
						}
						op = btOp{Kind: "Modify", Table: t, Mods: []*btapb.ModifyColumnFamiliesRequest_Modification{mod}}
					case 3:
						op = btOp{Kind: "MutateRow", Table: t, Key: btRowKeys[d.n(4)], Muts: mutList{setCell([]string{"f1", "f2"}[d.n(2)], "q", 1000, fmt.Sprintf("v%d", seq))}}
					case 4:
						op = btOp{Kind: "DropPrefix", Table: t, Prefix: "a"}
					case 5:
						op = btOp{Kind: "GetTable", Table: t}
					default:
						op = btOp{Kind: "DropAll", Table: t}
					}
					resp := execOp(w, op)
					r.Hist(map[string]interface{}{"cycle": cycle, "client": c, "op": op.String(), "resp": resp})
					r.Mix(opShape(op))
					s.Yield("boundary")
				}
			})
		}
		v := s.Run()
		r.FinishSched(s, v)
		if r.Failed() {
			closeQuietly(w)
			return
		}
		obs, err := observeAll(w)
		if err != nil {
			r.Fail("read-failed", "", "reading the state after the concurrent phase: %v", err)
			closeQuietly(w)
			return
		}
		before = modelString(obs)
		if clean {
			r.Probe("c08.clean_stop")
			r.Fault("clean_stop")
			closeQuietly(w)
			crashInfo = append(crashInfo, fmt.Sprintf("a clean stop after concurrent phase %d", cycle))
		} else {
			next := scratchDir("bt-c08c-")
			if err := imageDir(dir, next); err != nil {
				harnessErr("image: %v", err)
			}
			r.Probe("c08.crash_boundary")
			r.Fault("crash_boundary")
			closeQuietly(w)
			os.RemoveAll(dir)
			dir = next
			d2 := dir
			r.Defer(func() { os.RemoveAll(d2) })
			crashInfo = append(crashInfo, fmt.Sprintf("a kill between requests after concurrent phase %d", cycle))
		}
	}
	r.nontrivial = true
	r.Sample = map[string]interface{}{"mode": "concurrent-admin", "clients": nClients, "ops_each": nOps, "cycles": cycles, "clean_stop": clean, "stops": crashInfo, "final_state": before}
}
