package main

import (
	"fmt"
	"math"
	"sort"
	"strings"

	btapb "cloud.google.com/go/bigtable/admin/apiv2/adminpb"
	btpb "cloud.google.com/go/bigtable/apiv2/bigtablepb"
	"google.golang.org/grpc/codes"
	"google.golang.org/protobuf/types/known/durationpb"
)

// Sequential Bigtable programs: operation representation, generation from a choice stream
// (fixed-width records), execution against a world, and the model step that checks a response
// and updates the reference model.

type btOp struct {
	Kind    string // MutateRow MutateRows CAM RMW ReadRow ReadAll Read CreateTable DeleteTable GetTable ListTables Modify DropPrefix DropAll GC Sample
	Table   string
	Parent  string
	TableID string
	Key     string
	Muts    []*btpb.Mutation
	Entries []entryIn
	Pred    *btpb.RowFilter
	TrueM   []*btpb.Mutation
	FalseM  []*btpb.Mutation
	Rules   []*btpb.ReadModifyWriteRule
	Filter  *btpb.RowFilter
	RowSet  mRowSet
	Limit   int64
	Fams    map[string]*btapb.GcRule
	Mods    []*btapb.ModifyColumnFamiliesRequest_Modification
	Prefix  string
	Force   bool
	Obs     *ORow // CAM: the row as an unfiltered read returned it (cell order for order-sensitive predicates)
}

func (o btOp) String() string {
	var sb strings.Builder
	sb.WriteString(o.Kind)
	if o.Table != "" {
		fmt.Fprintf(&sb, " %s", shortTable(o.Table))
	}
	switch o.Kind {
	case "MutateRow":
		fmt.Fprintf(&sb, " %q %s", o.Key, mutsString(o.Muts))
	case "MutateRows":
		for _, e := range o.Entries {
			fmt.Fprintf(&sb, " [%q %s]", e.Key, mutsString(e.Muts))
		}
	case "CAM":
		fmt.Fprintf(&sb, " %q pred=%s true=%s false=%s", o.Key, filterString(o.Pred), mutsString(o.TrueM), mutsString(o.FalseM))
	case "RMW":
		fmt.Fprintf(&sb, " %q %s", o.Key, rulesString(o.Rules))
	case "ReadRow":
		fmt.Fprintf(&sb, " %q", o.Key)
	case "Read":
		fmt.Fprintf(&sb, " rows=%s limit=%d filter=%s", rowSetString(o.RowSet), o.Limit, filterString(o.Filter))
	case "CreateTable":
		fmt.Fprintf(&sb, " %s/%s fams=%s", o.Parent, o.TableID, famsString(o.Fams))
	case "Modify":
		fmt.Fprintf(&sb, " %s", modsString(o.Mods))
	case "DropPrefix":
		fmt.Fprintf(&sb, " %q", o.Prefix)
	case "GC":
		fmt.Fprintf(&sb, " force=%v", o.Force)
	}
	return sb.String()
}

func shortTable(t string) string {
	return strings.Replace(t, "/tables/", "/", 1)
}

func mutsString(ms []*btpb.Mutation) string {
	var p []string
	for _, m := range ms {
		switch x := m.GetMutation().(type) {
		case *btpb.Mutation_SetCell_:
			p = append(p, fmt.Sprintf("Set(%s:%q@%d=%s)", x.SetCell.FamilyName, x.SetCell.ColumnQualifier, x.SetCell.TimestampMicros, shortVal(string(x.SetCell.Value))))
		case *btpb.Mutation_DeleteFromColumn_:
			d := x.DeleteFromColumn
			if d.TimeRange == nil {
				p = append(p, fmt.Sprintf("DelCol(%s:%q)", d.FamilyName, d.ColumnQualifier))
			} else {
				p = append(p, fmt.Sprintf("DelCol(%s:%q [%d,%d))", d.FamilyName, d.ColumnQualifier, d.TimeRange.StartTimestampMicros, d.TimeRange.EndTimestampMicros))
			}
		case *btpb.Mutation_DeleteFromFamily_:
			p = append(p, fmt.Sprintf("DelFam(%s)", x.DeleteFromFamily.FamilyName))
		case *btpb.Mutation_DeleteFromRow_:
			p = append(p, "DelRow")
		default:
			p = append(p, "Unset")
		}
	}
	return "{" + strings.Join(p, ", ") + "}"
}

func rulesString(rs []*btpb.ReadModifyWriteRule) string {
	var p []string
	for _, r := range rs {
		switch x := r.Rule.(type) {
		case *btpb.ReadModifyWriteRule_AppendValue:
			p = append(p, fmt.Sprintf("Append(%s:%q,%q)", r.FamilyName, r.ColumnQualifier, x.AppendValue))
		case *btpb.ReadModifyWriteRule_IncrementAmount:
			p = append(p, fmt.Sprintf("Incr(%s:%q,%d)", r.FamilyName, r.ColumnQualifier, x.IncrementAmount))
		default:
			p = append(p, fmt.Sprintf("NoRule(%s:%q)", r.FamilyName, r.ColumnQualifier))
		}
	}
	return "{" + strings.Join(p, ", ") + "}"
}

func gcRuleString(g *btapb.GcRule) string {
	if g == nil {
		return "-"
	}
	switch x := g.Rule.(type) {
	case *btapb.GcRule_MaxNumVersions:
		return fmt.Sprintf("maxv(%d)", x.MaxNumVersions)
	case *btapb.GcRule_MaxAge:
		return fmt.Sprintf("maxage(%ds%dns)", x.MaxAge.Seconds, x.MaxAge.Nanos)
	case *btapb.GcRule_Union_:
		var p []string
		for _, s := range x.Union.Rules {
			p = append(p, gcRuleString(s))
		}
		return "union(" + strings.Join(p, ",") + ")"
	case *btapb.GcRule_Intersection_:
		var p []string
		for _, s := range x.Intersection.Rules {
			p = append(p, gcRuleString(s))
		}
		return "intersection(" + strings.Join(p, ",") + ")"
	}
	return "unset"
}

func famsString(f map[string]*btapb.GcRule) string {
	var ks []string
	for k := range f {
		ks = append(ks, k)
	}
	sort.Strings(ks)
	var p []string
	for _, k := range ks {
		p = append(p, k+"="+gcRuleString(f[k]))
	}
	return "{" + strings.Join(p, " ") + "}"
}

func modsString(ms []*btapb.ModifyColumnFamiliesRequest_Modification) string {
	var p []string
	for _, m := range ms {
		switch {
		case m.GetCreate() != nil:
			p = append(p, fmt.Sprintf("create(%s %s)", m.Id, gcRuleString(m.GetCreate().GcRule)))
		case m.GetUpdate() != nil:
			p = append(p, fmt.Sprintf("update(%s %s)", m.Id, gcRuleString(m.GetUpdate().GcRule)))
		case m.GetDrop():
			p = append(p, fmt.Sprintf("drop(%s)", m.Id))
		default:
			p = append(p, fmt.Sprintf("none(%s)", m.Id))
		}
	}
	return "[" + strings.Join(p, " ") + "]"
}

func rowSetString(s mRowSet) string {
	if s.all() {
		return "all"
	}
	var p []string
	for _, k := range s.keys {
		p = append(p, fmt.Sprintf("%q", k))
	}
	for _, g := range s.ranges {
		a, b := "(-inf", "+inf)"
		switch g.start.kind {
		case 1:
			a = fmt.Sprintf("(%q", g.start.key)
		case 2:
			a = fmt.Sprintf("[%q", g.start.key)
		}
		switch g.end.kind {
		case 1:
			b = fmt.Sprintf("%q)", g.end.key)
		case 2:
			b = fmt.Sprintf("%q]", g.end.key)
		}
		p = append(p, a+","+b)
	}
	return strings.Join(p, " u ")
}

// btResp is the normalised response of one operation.
type btResp struct {
	Code    codes.Code   `json:"code"`
	Entries []codes.Code `json:"entries,omitempty"`
	Matched bool         `json:"matched,omitempty"`
	Rows    []ORow       `json:"rows,omitempty"`
	Msgs    int          `json:"msgs,omitempty"`
	Bad     string       `json:"malformed,omitempty"`
	Tables  []string     `json:"tables,omitempty"`
	Fams    string       `json:"fams,omitempty"`
	Samples []string     `json:"samples,omitempty"`
	Offsets []int64      `json:"offsets,omitempty"`
	Err     string       `json:"err,omitempty"`
	famMap  map[string]*btapb.GcRule
}

func (r btResp) ok() bool { return r.Code == codes.OK }

func execOp(w *BTWorld, op btOp) btResp {
	var resp btResp
	setErr := func(err error) {
		resp.Code = codeOf(err)
		if err != nil {
			resp.Err = err.Error()
			if strings.HasPrefix(resp.Err, "MALFORMED") {
				resp.Bad = resp.Err
			}
		}
	}
	switch op.Kind {
	case "MutateRow":
		setErr(w.MutateRow(op.Table, op.Key, op.Muts))
	case "MutateRows":
		cs, err := w.MutateRows(op.Table, op.Entries)
		setErr(err)
		resp.Entries = cs
	case "CAM":
		m, err := w.CheckAndMutate(op.Table, op.Key, op.Pred, op.TrueM, op.FalseM)
		setErr(err)
		resp.Matched = m
	case "RMW":
		row, err := w.RMW(op.Table, op.Key, op.Rules)
		setErr(err)
		if row != nil {
			resp.Rows = []ORow{*row}
		}
	case "ReadRow", "ReadAll", "Read":
		req := &btpb.ReadRowsRequest{TableName: op.Table, Filter: op.Filter, RowsLimit: op.Limit}
		if op.Kind == "ReadRow" {
			req.Rows = &btpb.RowSet{RowKeys: [][]byte{[]byte(op.Key)}}
		} else if op.Kind == "Read" {
			req.Rows = op.RowSet.toProto()
		}
		rr := w.ReadRows(req)
		setErr(rr.Err)
		resp.Rows, resp.Msgs = rr.Rows, rr.Msgs
		if rr.Bad != nil {
			resp.Bad = rr.Bad.Error()
		}
	case "CreateTable":
		t, err := w.CreateTable(op.Parent, op.TableID, op.Fams)
		setErr(err)
		if t != nil {
			resp.famMap = famsOf(t)
			resp.Fams = famsString(resp.famMap)
			resp.Tables = []string{t.Name}
		}
	case "DeleteTable":
		setErr(w.DeleteTable(op.Table))
	case "GetTable":
		t, err := w.GetTable(op.Table)
		setErr(err)
		if t != nil {
			resp.famMap = famsOf(t)
			resp.Fams = famsString(resp.famMap)
			resp.Tables = []string{t.Name}
		}
	case "ListTables":
		ts, err := w.ListTables(op.Parent)
		setErr(err)
		resp.Tables = ts
	case "Modify":
		t, err := w.ModifyFamilies(op.Table, op.Mods)
		setErr(err)
		if t != nil {
			resp.famMap = famsOf(t)
			resp.Fams = famsString(resp.famMap)
		}
	case "DropPrefix":
		setErr(w.DropRowRange(op.Table, []byte(op.Prefix), false))
	case "DropAll":
		setErr(w.DropRowRange(op.Table, nil, true))
	case "GC":
		if !w.GC(op.Table, op.Force) {
			resp.Code = codes.NotFound
		}
	case "Sample":
		ms, err := w.SampleRowKeys(op.Table)
		setErr(err)
		for _, m := range ms {
			resp.Samples = append(resp.Samples, string(m.RowKey))
			resp.Offsets = append(resp.Offsets, m.OffsetBytes)
		}
	default:
		harnessErr("execOp: unknown kind %q", op.Kind)
	}
	return resp
}

// ---- registry model -------------------------------------------------------------------------

type btModel struct {
	Tables map[string]*mTable
}

func newBTModel() *btModel { return &btModel{Tables: map[string]*mTable{}} }

func (m *btModel) clone() *btModel {
	o := newBTModel()
	for n, t := range m.Tables {
		o.Tables[n] = t.clone()
	}
	return o
}

func (m *btModel) tableNames() []string {
	var ns []string
	for n := range m.Tables {
		ns = append(ns, n)
	}
	sort.Strings(ns)
	return ns
}

// checkObservedRows validates shape and compares with expected canonical rows.
func compareRows(what string, got []ORow, want []ORow, dupOK bool) error {
	for _, r := range got {
		if err := checkRowShape(r, dupOK); err != nil {
			return fmt.Errorf("%s: %v", what, err)
		}
	}
	var cg []ORow
	for _, r := range got {
		cg = append(cg, r.canonical())
	}
	for i := 1; i < len(cg); i++ {
		if cg[i-1].Key >= cg[i].Key {
			return fmt.Errorf("%s: rows out of order or duplicated: %q then %q", what, cg[i-1].Key, cg[i].Key)
		}
	}
	if !equalRowLists(cg, want) {
		return fmt.Errorf("%s:\n  got  %s\n  want %s", what, rowsString(cg), rowsString(want))
	}
	return nil
}

// step checks the response of op against the model and updates the model. nowUs is the server
// clock at the time of the request. It returns a description of the mismatch, or "".
func (m *btModel) step(op btOp, resp btResp, nowUs int64) (kind string, msg string) {
	if resp.Bad != "" {
		return "malformed-stream", fmt.Sprintf("%s: %s", op, resp.Bad)
	}
	t := m.Tables[op.Table]
	needsTable := map[string]bool{"MutateRow": true, "MutateRows": true, "CAM": true, "RMW": true, "ReadRow": true, "ReadAll": true, "Read": true,
		"DeleteTable": true, "GetTable": true, "Modify": true, "DropPrefix": true, "DropAll": true, "Sample": true}
	if needsTable[op.Kind] && t == nil {
		if resp.Code != codes.NotFound {
			return "missing-table", fmt.Sprintf("%s on a table that does not exist: got %v (%s), want NotFound", op, resp.Code, resp.Err)
		}
		return "", ""
	}
	switch op.Kind {
	case "MutateRow":
		out := t.applyMutations(t.row(op.Key), op.Muts, nowUs)
		switch {
		case out.either:
			// may fail or be a no-op; nothing is stored either way
		case out.err != nil:
			if resp.ok() {
				return "invalid-accepted", fmt.Sprintf("%s: accepted, but the request is invalid (%v)", op, out.err)
			}
		default:
			if !resp.ok() {
				if out.altErr {
					break
				}
				return "valid-rejected", fmt.Sprintf("%s: rejected with %v (%s), but the request is valid", op, resp.Code, resp.Err)
			}
			t.setRow(op.Key, out.row)
		}
	case "MutateRows":
		if !resp.ok() {
			return "valid-rejected", fmt.Sprintf("%s: stream failed with %v (%s)", op, resp.Code, resp.Err)
		}
		for i, e := range op.Entries {
			out := t.applyMutations(t.row(e.Key), e.Muts, nowUs)
			switch {
			case out.either:
			case out.err != nil:
				if resp.Entries[i] == codes.OK {
					return "invalid-accepted", fmt.Sprintf("%s: entry %d reported OK, but it is invalid (%v)", op, i, out.err)
				}
			default:
				if resp.Entries[i] != codes.OK {
					if out.altErr {
						continue
					}
					return "valid-rejected", fmt.Sprintf("%s: entry %d reported %v, but it is valid", op, i, resp.Entries[i])
				}
				t.setRow(e.Key, out.row)
			}
		}
	case "CAM":
		row := t.row(op.Key)
		matched := !row.empty()
		predInvalid, predMaybe := false, false
		if op.Pred != nil {
			obs := row.render(op.Key)
			if op.Obs != nil {
				obs = *op.Obs
			}
			fo := evalFilterRow(op.Pred, obs)
			predInvalid, predMaybe = fo.required || staticRequired(op.Pred), fo.permitted
			matched = len(fo.outs) > 0 && len(fo.outs[0]) > 0
			if row.empty() {
				matched = false
				if staticInvalid(op.Pred) {
					predMaybe = true
				}
			}
		}
		if predInvalid {
			if resp.ok() {
				return "invalid-accepted", fmt.Sprintf("%s: accepted, but the predicate is invalid", op)
			}
			return "", ""
		}
		if !resp.ok() && predMaybe {
			return "", ""
		}
		muts := op.FalseM
		if matched {
			muts = op.TrueM
		}
		out := t.applyMutations(row, muts, nowUs)
		switch {
		case out.either:
			if resp.ok() && resp.Matched != matched {
				return "cam-matched", fmt.Sprintf("%s: predicate_matched=%v, want %v (row %s)", op, resp.Matched, matched, row.render(op.Key))
			}
		case out.err != nil:
			if resp.ok() {
				return "invalid-accepted", fmt.Sprintf("%s: accepted, but the selected (%v) mutation list is invalid (%v)", op, matched, out.err)
			}
		default:
			if !resp.ok() {
				if out.altErr {
					break
				}
				return "valid-rejected", fmt.Sprintf("%s: rejected with %v (%s), but the request is valid (row %s)", op, resp.Code, resp.Err, row.render(op.Key))
			}
			if resp.Matched != matched {
				return "cam-matched", fmt.Sprintf("%s: predicate_matched=%v, want %v (row %s)", op, resp.Matched, matched, row.render(op.Key))
			}
			t.setRow(op.Key, out.row)
		}
	case "RMW":
		nr, cells, err, either := t.rmw(t.row(op.Key), op.Rules, nowUs)
		switch {
		case either:
			if resp.ok() && len(resp.Rows) > 0 && len(resp.Rows[0].Cells) > 0 {
				return "rmw-response", fmt.Sprintf("%s: no rules, but the response carries cells %s", op, resp.Rows[0])
			}
		case err != nil:
			if resp.ok() {
				return "invalid-accepted", fmt.Sprintf("%s: accepted, but the request is invalid (%v)", op, err)
			}
		default:
			if !resp.ok() {
				return "valid-rejected", fmt.Sprintf("%s: rejected with %v (%s), but the request is valid", op, resp.Code, resp.Err)
			}
			want := ORow{Key: op.Key, Cells: append([]OCell(nil), cells...)}
			sort.SliceStable(want.Cells, func(i, j int) bool {
				if want.Cells[i].Fam != want.Cells[j].Fam {
					return want.Cells[i].Fam < want.Cells[j].Fam
				}
				return want.Cells[i].Qual < want.Cells[j].Qual
			})
			got := ORow{}
			if len(resp.Rows) > 0 {
				got = resp.Rows[0].canonical()
			}
			if !equalRows(got, want) {
				return "rmw-response", fmt.Sprintf("%s (clock %d):\n  response %s\n  want     %s", op, nowUs, got, want)
			}
			t.setRow(op.Key, nr)
		}
	case "ReadRow":
		if !resp.ok() {
			return "read-failed", fmt.Sprintf("%s: %v (%s)", op, resp.Code, resp.Err)
		}
		var want []ORow
		if r := t.row(op.Key); !r.empty() {
			want = []ORow{r.render(op.Key)}
		}
		if err := compareRows(op.String(), resp.Rows, want, false); err != nil {
			return "read-mismatch", err.Error()
		}
	case "ReadAll":
		if !resp.ok() {
			return "read-failed", fmt.Sprintf("%s: %v (%s)", op, resp.Code, resp.Err)
		}
		if err := compareRows(op.String(), resp.Rows, t.render(), false); err != nil {
			return "read-mismatch", err.Error()
		}
	case "CreateTable":
		name := op.Parent + "/tables/" + op.TableID
		if _, ok := m.Tables[name]; ok {
			if resp.Code != codes.AlreadyExists {
				return "create-existing", fmt.Sprintf("%s: table exists, got %v want AlreadyExists", op, resp.Code)
			}
			return "", ""
		}
		if !resp.ok() && strings.Contains(op.Parent, "/tables/") {
			// a parent that is itself a table name is not an instance: may be refused
			return "", ""
		}
		if !resp.ok() && (strings.HasSuffix(op.TableID, ".table.proto") || strings.HasSuffix(op.TableID, ".table.proto.tmp")) {
			// an id that ends like the disk engine's own file names may be refused (since
			// repair "table ids with the suffix .table.proto are reserved"); where it is
			// accepted, the table must behave like any other and leave its neighbours alone
			return "", ""
		}
		if !resp.ok() {
			return "valid-rejected", fmt.Sprintf("%s: %v (%s)", op, resp.Code, resp.Err)
		}
		nt := newMTable()
		for f, g := range op.Fams {
			nt.Fams[f] = g
		}
		m.Tables[name] = nt
		if len(resp.Tables) != 1 || resp.Tables[0] != name || resp.Fams != famsString(nt.Fams) {
			return "create-response", fmt.Sprintf("%s: response names %v with families %s, want %s %s", op, resp.Tables, resp.Fams, name, famsString(nt.Fams))
		}
	case "DeleteTable":
		if !resp.ok() {
			return "valid-rejected", fmt.Sprintf("%s: %v (%s)", op, resp.Code, resp.Err)
		}
		delete(m.Tables, op.Table)
	case "GetTable":
		if !resp.ok() {
			return "valid-rejected", fmt.Sprintf("%s: %v (%s)", op, resp.Code, resp.Err)
		}
		if resp.Fams != famsString(t.Fams) || len(resp.Tables) != 1 || resp.Tables[0] != op.Table {
			return "gettable-mismatch", fmt.Sprintf("%s: got %v %s, want %s", op, resp.Tables, resp.Fams, famsString(t.Fams))
		}
	case "ListTables":
		if !resp.ok() {
			return "valid-rejected", fmt.Sprintf("%s: %v (%s)", op, resp.Code, resp.Err)
		}
		var want []string
		for _, n := range m.tableNames() {
			// exactly the tables of that parent: <parent>/tables/<id>, the id holding no slash
			if rest := strings.TrimPrefix(n, op.Parent+"/tables/"); rest != n && !strings.Contains(rest, "/") {
				want = append(want, n)
			}
		}
		if strings.Join(want, ",") != strings.Join(resp.Tables, ",") {
			return "listtables-mismatch", fmt.Sprintf("%s %s: got %v want %v", op, op.Parent, resp.Tables, want)
		}
	case "Modify":
		// all modifications or none
		fams := map[string]*btapb.GcRule{}
		for f, g := range t.Fams {
			fams[f] = g
		}
		var dropped []string
		var verr error
		wantCode := codes.OK
		for i, mod := range op.Mods {
			_, exists := fams[mod.Id]
			switch {
			case mod.GetCreate() != nil:
				if exists {
					verr = fmt.Errorf("modification %d creates existing family %q", i, mod.Id)
					wantCode = codes.AlreadyExists
				} else {
					fams[mod.Id] = mod.GetCreate().GcRule
				}
			case mod.GetUpdate() != nil:
				if !exists {
					verr = fmt.Errorf("modification %d updates unknown family %q", i, mod.Id)
				} else {
					fams[mod.Id] = mod.GetUpdate().GcRule
				}
			case mod.GetDrop():
				if !exists {
					verr = fmt.Errorf("modification %d drops unknown family %q", i, mod.Id)
				} else {
					delete(fams, mod.Id)
					dropped = append(dropped, mod.Id)
				}
			default:
				// a modification with nothing set: unspecified (ignored or rejected)
				return "", ""
			}
			if verr != nil {
				break
			}
		}
		if verr != nil {
			if resp.ok() {
				return "invalid-accepted", fmt.Sprintf("%s: accepted, but %v", op, verr)
			}
			if wantCode == codes.AlreadyExists && resp.Code != codes.AlreadyExists {
				return "modify-code", fmt.Sprintf("%s: got %v, want AlreadyExists (%v)", op, resp.Code, verr)
			}
			return "", ""
		}
		if !resp.ok() {
			return "valid-rejected", fmt.Sprintf("%s: %v (%s)", op, resp.Code, resp.Err)
		}
		t.Fams = fams
		for _, f := range dropped {
			if _, back := fams[f]; back {
				// dropped and re-created inside one request: data of the old family is gone
			}
			for k, r := range t.Rows {
				delete(r, f)
				t.setRow(k, r)
			}
		}
		if resp.Fams != famsString(t.Fams) {
			return "modify-response", fmt.Sprintf("%s: response families %s, want %s", op, resp.Fams, famsString(t.Fams))
		}
	case "DropPrefix":
		if !resp.ok() {
			return "valid-rejected", fmt.Sprintf("%s: %v (%s)", op, resp.Code, resp.Err)
		}
		for k := range t.Rows {
			if strings.HasPrefix(k, op.Prefix) {
				delete(t.Rows, k)
			}
		}
	case "DropAll":
		if !resp.ok() {
			return "valid-rejected", fmt.Sprintf("%s: %v (%s)", op, resp.Code, resp.Err)
		}
		t.Rows = map[string]mRow{}
	case "GC":
		if t != nil && op.Force {
			for k, r := range t.Rows {
				t.setRow(k, t.gcRow(r, nowUs))
			}
		}
	case "Sample":
		if !resp.ok() {
			return "valid-rejected", fmt.Sprintf("%s: %v (%s)", op, resp.Code, resp.Err)
		}
		keys := t.sortedKeys()
		if len(keys) == 0 {
			if len(resp.Samples) != 0 {
				return "sample", fmt.Sprintf("%s: empty table but samples %q", op, resp.Samples)
			}
			return "", ""
		}
		if len(resp.Samples) == 0 || resp.Samples[len(resp.Samples)-1] != keys[len(keys)-1] {
			return "sample", fmt.Sprintf("%s: samples %q do not end with the last stored key %q", op, resp.Samples, keys[len(keys)-1])
		}
		idx := map[string]int{}
		for i, k := range keys {
			idx[k] = i
		}
		last := -1
		for i, s := range resp.Samples {
			p, ok := idx[s]
			if !ok {
				return "sample", fmt.Sprintf("%s: sample %q is not a stored key (stored %q)", op, s, keys)
			}
			if p <= last {
				return "sample", fmt.Sprintf("%s: samples not strictly ascending: %q", op, resp.Samples)
			}
			last = p
			if i > 0 && resp.Offsets[i] < resp.Offsets[i-1] {
				return "sample", fmt.Sprintf("%s: offsets decrease: %v", op, resp.Offsets)
			}
			if resp.Offsets[i] < 0 {
				return "sample", fmt.Sprintf("%s: negative offset: %v", op, resp.Offsets)
			}
		}
	}
	return "", ""
}

// ---- generation -----------------------------------------------------------------------------

type draws struct {
	v []int
	i int
}

// record draws a fixed-width record from the stream so that deleting one aligned record in the
// shrinker removes exactly one operation.
func record(s *Stream, n int) *draws {
	recWidths["prog"] = n
	d := &draws{v: make([]int, n)}
	for i := range d.v {
		d.v[i] = s.Intn(1 << 20)
	}
	return d
}

func (d *draws) n(mod int) int {
	// past the end the record wraps around: still a pure function of the record
	x := d.v[d.i%len(d.v)]
	d.i++
	if mod <= 1 {
		return 0
	}
	return x % mod
}

// sub carves the next n draws out as an independent record (wrapping around at the end).
func (d *draws) sub(n int) *draws {
	o := &draws{v: make([]int, n)}
	for i := range o.v {
		o.v[i] = d.v[(d.i+i)%len(d.v)]
	}
	d.i += n
	return o
}

func (d *draws) w(weights ...int) int {
	tot := 0
	for _, x := range weights {
		tot += x
	}
	v := d.n(tot)
	for i, x := range weights {
		if v < x {
			return i
		}
		v -= x
	}
	return len(weights) - 1
}

var btRowKeys = []string{"a", "a\x00", "a\x00\x00", "ab", "b", "\x00", "\xff", "a\xff"}
var btQuals = []string{"q", "", "q\x00", "r", "\xff", "2q"} // with families f1/f12: f1+"2q" and f12+"q" concatenate alike
var btValidTs = []int64{1000, 0, 2000, 3000, maxValidTs}
var btInvalidTs = []int64{-2, -1000, 1, 1500, math.MaxInt64}

type btGen struct {
	fams    []string // known families, simplest first
	unknown string
	seq     int // unique value counter
	bigVals bool
}

func (g *btGen) fam(d *draws) string {
	all := append(append([]string(nil), g.fams...), g.unknown)
	w := make([]int, len(all))
	for i := range g.fams {
		w[i] = 6 - 2*i
		if w[i] < 2 {
			w[i] = 2
		}
	}
	w[len(all)-1] = 1
	return all[d.w(w...)]
}

func (g *btGen) ts(d *draws) int64 {
	switch d.w(10, 3, 2) {
	case 0:
		return btValidTs[d.n(len(btValidTs))]
	case 1:
		d.n(1)
		return -1
	default:
		return btInvalidTs[d.n(len(btInvalidTs))]
	}
}

func (g *btGen) value(d *draws) []byte {
	g.seq++
	switch d.w(20, 2, 1) {
	case 1:
		return []byte{}
	case 2:
		if g.bigVals {
			b := make([]byte, 64<<10)
			for i := range b {
				b[i] = byte(i*7 + g.seq)
			}
			return b
		}
	}
	return []byte(fmt.Sprintf("v%d", g.seq))
}

// mutation consumes exactly 8 draws.
func (g *btGen) mutation(d *draws) *btpb.Mutation {
	sub := d.sub(8)
	d = sub
	switch d.w(12, 4, 2, 2, 1) {
	case 0:
		return &btpb.Mutation{Mutation: &btpb.Mutation_SetCell_{SetCell: &btpb.Mutation_SetCell{
			FamilyName: g.fam(d), ColumnQualifier: []byte(btQuals[d.n(len(btQuals))]), TimestampMicros: g.ts(d), Value: g.value(d)}}}
	case 1:
		dc := &btpb.Mutation_DeleteFromColumn{FamilyName: g.fam(d), ColumnQualifier: []byte(btQuals[d.n(len(btQuals))])}
		switch d.w(4, 1, 4, 1, 1, 2, 1) {
		case 0: // no range
		case 1:
			dc.TimeRange = &btpb.TimestampRange{}
		case 2:
			a, b := btValidTs[d.n(4)], btValidTs[d.n(4)]
			if a > b {
				a, b = b, a
			}
			if a == b {
				b = a + 1000
			}
			dc.TimeRange = &btpb.TimestampRange{StartTimestampMicros: a, EndTimestampMicros: b}
		case 3: // s == e
			a := btValidTs[d.n(4)]
			if a == 0 {
				a = 1000
			}
			dc.TimeRange = &btpb.TimestampRange{StartTimestampMicros: a, EndTimestampMicros: a}
		case 4: // s > e
			dc.TimeRange = &btpb.TimestampRange{StartTimestampMicros: 3000, EndTimestampMicros: int64(1000 + 1000*d.n(2))}
		case 5: // e == 0 (unbounded)
			dc.TimeRange = &btpb.TimestampRange{StartTimestampMicros: btValidTs[d.n(4)]}
		case 6: // invalid bound
			if d.n(2) == 0 {
				dc.TimeRange = &btpb.TimestampRange{StartTimestampMicros: btInvalidTs[d.n(4)], EndTimestampMicros: 3000}
			} else {
				dc.TimeRange = &btpb.TimestampRange{StartTimestampMicros: 1000, EndTimestampMicros: btInvalidTs[1+d.n(3)]}
			}
		}
		return &btpb.Mutation{Mutation: &btpb.Mutation_DeleteFromColumn_{DeleteFromColumn: dc}}
	case 2:
		return &btpb.Mutation{Mutation: &btpb.Mutation_DeleteFromFamily_{DeleteFromFamily: &btpb.Mutation_DeleteFromFamily{FamilyName: g.fam(d)}}}
	case 3:
		return &btpb.Mutation{Mutation: &btpb.Mutation_DeleteFromRow_{DeleteFromRow: &btpb.Mutation_DeleteFromRow{}}}
	}
	return &btpb.Mutation{}
}

// mutations consumes 1 + 8*max draws.
func (g *btGen) mutations(d *draws, max int, allowEmpty bool) []*btpb.Mutation {
	e := 0
	if allowEmpty {
		e = 1
	}
	k := d.w(16, 8, 4, 2, e)
	n := k + 1
	if k == 4 {
		n = 0
	}
	if n > max {
		n = max
	}
	var ms []*btpb.Mutation
	for i := 0; i < max; i++ {
		m := g.mutation(d)
		if i < n {
			ms = append(ms, m)
		}
	}
	return ms
}

func gcRuleGen(d *draws, depth int) *btapb.GcRule {
	// consumes 3 draws per node, at most 1+3 nodes
	switch d.w(3, 3, 3, 2, 1) {
	case 0:
		d.n(1)
		d.n(1)
		return nil
	case 1:
		v := int32(1 + d.n(3))
		d.n(1)
		return &btapb.GcRule{Rule: &btapb.GcRule_MaxNumVersions{MaxNumVersions: v}}
	case 2:
		secs := []int64{0, 1, 3600}[d.n(3)]
		nanos := []int32{0, 1000, 500000000}[d.n(3)]
		if secs == 0 && nanos == 0 {
			nanos = 2000000
		}
		return &btapb.GcRule{Rule: &btapb.GcRule_MaxAge{MaxAge: &durationpb.Duration{Seconds: secs, Nanos: nanos}}}
	case 3:
		a := &btapb.GcRule{Rule: &btapb.GcRule_MaxNumVersions{MaxNumVersions: int32(1 + d.n(3))}}
		b := &btapb.GcRule{Rule: &btapb.GcRule_MaxAge{MaxAge: &durationpb.Duration{Seconds: []int64{0, 1, 3600}[d.n(3)], Nanos: 3000}}}
		return &btapb.GcRule{Rule: &btapb.GcRule_Union_{Union: &btapb.GcRule_Union{Rules: []*btapb.GcRule{a, b}}}}
	default:
		a := &btapb.GcRule{Rule: &btapb.GcRule_MaxNumVersions{MaxNumVersions: int32(1 + d.n(3))}}
		b := &btapb.GcRule{Rule: &btapb.GcRule_MaxAge{MaxAge: &durationpb.Duration{Seconds: int64(d.n(3))}}}
		return &btapb.GcRule{Rule: &btapb.GcRule_Intersection_{Intersection: &btapb.GcRule_Intersection{Rules: []*btapb.GcRule{a, b}}}}
	}
}

// clockStep advances / steps the simulated clocks between requests (stream "clock").
func clockStep(r *Run, clk *Clock, allowBack bool) {
	cs := r.T.S("clock")
	switch cs.Weighted([]int{6, 4, 3, 2, 1, 1}) {
	case 0: // stays
	case 1:
		d := int64(1 + cs.Intn(999))
		clk.ServerUs += d
		r.SimServerUs += d
	case 2: // to an exact millisecond boundary
		d := 1000 - clk.ServerUs%1000
		clk.ServerUs += d
		r.SimServerUs += d
	case 3:
		d := int64(1+cs.Intn(5000)) * 1000
		clk.ServerUs += d + int64(cs.Intn(1000))
		r.SimServerUs += d
	case 4:
		d := int64(1+cs.Intn(48)) * 3600 * 1e6
		clk.ServerUs += d
		r.SimServerUs += d
	case 5:
		if allowBack {
			d := int64(1 + cs.Intn(5000000))
			if clk.ServerUs-d > 0 {
				clk.ServerUs -= d
				r.Fault("clock_back")
			}
		}
	}
}
