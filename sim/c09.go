package main

import (
	"fmt"
	"net/url"
	"os"
	"path/filepath"
	"sort"
	"strings"
	"time"
)

// C09: the file store persists everything across restarts and is equivalent to the memory store.

func init() {
	register(&PropDef{
		ID: "C09", Level: "fault_enumeration", Quick: 12500, Thorough: 250000, QuickCap: 100,
		Rule:   "two sub-workloads. restart: a sequential program (uploads by every protocol, patches, deletes, compose, copy, bucket creation) on the file store with a new emulator instance on the same directory after EVERY request (a kill between requests; pending resumable uploads die), comparing every bucket, object, content, metadata, generation and metageneration through HTTP with what was acknowledged; content files without a metadata sidecar are planted into the directory and must be served, then patched, copied and deleted like any object, the outcome surviving another restart. differential: one tape of pre-drawn operation records executed against a memory-store world and a file-store world (names representable as files); normalised response traces (status, metadata with generations replaced by their rank of first appearance, body hashes, listings) must be identical; every third differential run adds the memory store behind a real net/http server on a loopback socket, whose trace must equal the recorder stub's (transport fidelity); distinct = hash of (sub-workload, shapes); non-trivial = at least 3 requests",
		Real:   []string{"gcsemu filestore (Add: content, forced mtime, sidecar; UpdateMeta; Delete; ReadMeta; Walk), memstore, all handlers"},
		Stub:   []string{"process kill between requests = the GcsEmu value is dropped and rebuilt with NewFileStore(sameDir)", "wall clock (simulator-owned)"},
		Assume: []string{"a kill between requests (the property's wording), not inside one", "timestamps and concrete generation numbers are not compared across stores"},
		Run:    runC09,
	})
	expectedProbes["C09"] = []string{"gcs.restart", "c09.bucket_deleted", "c09.planted_file_served", "c09.planted_file_patched_copied_deleted", "c09.differential_equal", "c09.differential_listing", "c09.real_http_transport"}
}

func c09Gen(r *Run, g *gGen) func(d *draws, m *gModel, i int) gOp {
	names := gNamesFile
	return func(d *draws, m *gModel, i int) gOp {
		b := gBuckets[d.w(4, 1)]
		name := existingName(d, m, b, names)
		cur := m.obj(b, name)
		switch d.w(6, 3, 2, 2, 2, 2, 2, 1) {
		case 7:
			// buckets come and go too (a deleted bucket takes its objects and directories along;
			// uploads create it again)
			if d.n(3) == 0 {
				return gOp{Kind: "GetBucket", Bucket: b}
			}
			r.Probe("c09.bucket_deleted")
			return gOp{Kind: "DeleteBucket", Bucket: b}
		case 0:
			return g.upload(d, b, name, g.conds(d, cur, false))
		case 1:
			return gOp{Kind: "Patch", Bucket: b, Name: name, Conds: g.conds(d, cur, false), Body: map[string]interface{}{"metadata": map[string]string{"k": fmt.Sprint(i)}, "contentType": "text/x-" + fmt.Sprint(i%3)}}
		case 2:
			return gOp{Kind: "Delete", Bucket: b, Name: name, Conds: g.conds(d, cur, false)}
		case 3:
			return gOp{Kind: "Compose", Bucket: b, Name: name, Srcs: []string{names[d.n(len(names))], names[d.n(len(names))]}, DstMeta: map[string]interface{}{"contentType": "text/plain"}}
		case 4:
			return gOp{Kind: "Copy", Bucket: b, Name: names[d.n(len(names))], DstB: gBuckets[d.n(2)], DstN: name}
		case 5:
			return gOp{Kind: "Media", Bucket: b, Name: name, Form: d.n(3)}
		default:
			return gOp{Kind: "Get", Bucket: b, Name: name}
		}
	}
}

func runC09(r *Run) {
	cfg := r.T.S("cfg")
	mode := cfg.Intn(2)
	if r.Index < 4 {
		mode = r.Index % 2
	}
	if mode == 0 {
		c09Restart(r, cfg)
	} else {
		c09Differential(r, cfg)
	}
}

func c09Restart(r *Run, cfg *Stream) {
	nOps := 3 + cfg.Intn(20)
	clk := NewClock(0, 1_700_000_000_000_000_000)
	wallIncreasing(r, clk)
	g := &gGen{store: "file"}
	spec := gSeqSpec{Store: "file", NOps: nOps, RestartEvery: true, Gen: c09Gen(r, g)}
	res := runGSeq(r, spec, clk)
	r.Mix("restart")
	r.nontrivial = len(res.Shapes) >= 3
	r.Sample = map[string]interface{}{"mode": "restart-after-every-request", "requests": len(res.Shapes), "first_ops": firstN(res.Shapes, 10)}
	if r.Failed() {
		return
	}
	// plant content files without a sidecar (as an older emulator or a user would leave them)
	w := res.World
	planted := map[string]string{"legacy.txt": "legacy-content", "old/dir/file.bin": "\x00\x01\x02"}
	for n, c := range planted {
		p := filepath.Join(w.Dir, "bkt", filepath.FromSlash(n))
		os.MkdirAll(filepath.Dir(p), 0777)
		if err := os.WriteFile(p, []byte(c), 0666); err != nil {
			harnessErr("plant: %v", err)
		}
		t := time.Unix(0, clk.WallNs+1000)
		os.Chtimes(p, t, t)
	}
	w = w.Restart()
	res.World = w
	var names []string
	for n := range planted {
		names = append(names, n)
	}
	sort.Strings(names)
	for _, n := range names {
		g1 := w.GetMeta("bkt", n)
		md := parseMeta(g1.JSON())
		if g1.Status != 200 || md == nil || md.Size != int64(len(planted[n])) || md.Name != n {
			r.Fail("sidecarless-not-served", "", "content file %q without a metadata sidecar: metadata GET gives HTTP %d %s", n, g1.Status, shortVal(string(g1.Body)))
			return
		}
		for f := 0; f < 3; f++ {
			m1 := w.GetMedia("bkt", n, f)
			if m1.Status != 200 || string(m1.Body) != planted[n] {
				r.Fail("sidecarless-not-served", "", "content file %q without a metadata sidecar: download form %d gives HTTP %d %s", n, f, m1.Status, shortVal(string(m1.Body)))
				return
			}
		}
	}
	_, lp := w.ListPage("bkt", url.Values{})
	found := 0
	if lp != nil {
		for _, it := range lp.Items {
			if _, ok := planted[it.Name]; ok {
				found++
			}
		}
	}
	if found != len(planted) {
		r.Fail("sidecarless-not-served", "", "planted content files are missing from the listing (%d of %d listed)", found, len(planted))
		return
	}
	r.Probe("c09.planted_file_served")
	// the planted objects are ordinary objects from now on: patch, copy, delete - and the result
	// persists across another restart
	before := parseMeta(w.GetMeta("bkt", "legacy.txt").JSON())
	pr := w.Patch("bkt", "legacy.txt", map[string]interface{}{"metadata": map[string]string{"k": "planted"}}, gConds{})
	pm := parseMeta(pr.JSON())
	if pr.Status != 200 || pm == nil || pm.Metadata["k"] != "planted" || pm.Metagen != before.Metagen+1 || pm.Gen != before.Gen {
		r.Fail("sidecarless-not-served", "", "PATCH of the sidecar-less object legacy.txt (generation %d, metageneration %d before): HTTP %d %s", before.Gen, before.Metagen, pr.Status, shortVal(string(pr.Body)))
		return
	}
	cp := w.Do(HReq{Method: "POST", Path: objPath("bkt", "old/dir/file.bin") + "/rewriteTo/b/bkt/o/" + escName("copy-of-planted.bin")})
	if cp.Status != 200 {
		r.Fail("sidecarless-not-served", "", "copy of the sidecar-less object old/dir/file.bin: HTTP %d %s", cp.Status, shortVal(string(cp.Body)))
		return
	}
	if dl := w.Delete("bkt", "old/dir/file.bin", gConds{}); !ok2xx(dl.Status) {
		r.Fail("sidecarless-not-served", "", "delete of the sidecar-less object old/dir/file.bin: HTTP %d %s", dl.Status, shortVal(string(dl.Body)))
		return
	}
	w = w.Restart()
	res.World = w
	after := parseMeta(w.GetMeta("bkt", "legacy.txt").JSON())
	if after == nil || after.Metadata["k"] != "planted" || after.Metagen != pm.Metagen || after.Gen != pm.Gen {
		r.Fail("restart-lost-state", "", "after a restart the patched legacy.txt reads %v, acknowledged was generation %d metageneration %d metadata k=planted", after, pm.Gen, pm.Metagen)
		return
	}
	if m1 := w.GetMedia("bkt", "copy-of-planted.bin", 0); m1.Status != 200 || string(m1.Body) != planted["old/dir/file.bin"] {
		r.Fail("restart-lost-state", "", "copy of a sidecar-less object after a restart: HTTP %d %s", m1.Status, shortVal(string(m1.Body)))
		return
	}
	if g2 := w.GetMeta("bkt", "old/dir/file.bin"); g2.Status != 404 {
		r.Fail("restart-lost-state", "", "deleted sidecar-less object is back after a restart: HTTP %d", g2.Status)
		return
	}
	r.Probe("c09.planted_file_patched_copied_deleted")
}

// normResp renders a response with generations replaced by their rank of first appearance.
type genRanks struct{ seen map[int64]int }

func (g *genRanks) rank(v int64) int {
	if v == 0 {
		return 0
	}
	if g.seen == nil {
		g.seen = map[int64]int{}
	}
	if _, ok := g.seen[v]; !ok {
		g.seen[v] = len(g.seen) + 1
	}
	return g.seen[v]
}

func (g *genRanks) meta(m *gMeta) string {
	if m == nil {
		return "-"
	}
	var ks []string
	for k, v := range m.Metadata {
		ks = append(ks, k+"="+v)
	}
	sort.Strings(ks)
	return fmt.Sprintf("{%s/%s g#%d mg=%d size=%d md5=%s ct=%q meta=%v cc=%q cd=%q cl=%q}", m.Bucket, m.Name, g.rank(m.Gen), m.Metagen, m.Size, m.Md5, m.ContentType, ks, m.CacheControl, m.ContentDisposition, m.ContentLang)
}

func c09Differential(r *Run, cfg *Stream) {
	nOps := 3 + cfg.Intn(25)
	ps := r.T.S("prog.0")
	var recs [][]int
	for i := 0; i < nOps; i++ {
		recs = append(recs, record(ps, 96).v)
	}
	// every third differential run adds a third world: the memory store behind a real net/http
	// server on a loopback socket (transport fidelity of the recorder stub)
	worlds := []string{"mem", "file"}
	if r.Index%3 == 0 {
		worlds = append(worlds, "mem-http")
		r.Probe("c09.real_http_transport")
	}
	traces := make([][]string, len(worlds))
	var shapes []string
	for wi, store := range worlds {
		clk := NewClock(0, 1_700_000_000_000_000_000)
		clk.WallTick = func() int64 { return 1_000_000 }
		g := &gGen{store: "file"} // same name universe and generator state for both
		ranks := &genRanks{}
		wi := wi
		overHTTP := store == "mem-http"
		if overHTTP {
			store = "mem"
		}
		spec := gSeqSpec{Store: store, NOps: nOps, Records: recs, Gen: c09Gen(r, g), OverHTTP: overHTTP,
			After: func(op gOp, resp gResp, m *gModel, w *GCSWorld) bool {
				line := fmt.Sprintf("%s -> %d %s", op.Kind, resp.Status, ranks.meta(resp.Meta))
				if op.Kind == "Media" {
					line += fmt.Sprintf(" body=%x ct=%q", hashString(string(resp.Body)), resp.CT)
				}
				traces[wi] = append(traces[wi], line)
				// a complete paged listing with a delimiter after every request (page size 1..3)
				mr := fmt.Sprint(1 + len(traces[wi])%3)
				q := url.Values{"delimiter": {"/"}, "maxResults": {mr}}
				for page := 0; page < 40; page++ {
					_, lp := w.ListPage("bkt", q)
					if lp == nil {
						traces[wi] = append(traces[wi], "list failed")
						break
					}
					var it []string
					for _, x := range lp.Items {
						it = append(it, ranks.meta(x))
					}
					traces[wi] = append(traces[wi], fmt.Sprintf("list(maxResults=%s) page %d items=%v prefixes=%v more=%v", mr, page, it, lp.Prefixes, lp.Next != ""))
					if lp.Next == "" {
						break
					}
					q = url.Values{"delimiter": {"/"}, "maxResults": {mr}, "pageToken": {lp.Next}}
				}
				return true
			}}
		res := runGSeq(r, spec, clk)
		if wi == 0 {
			shapes = res.Shapes
		}
		if r.Failed() {
			return
		}
	}
	r.Mix("diff")
	r.nontrivial = len(shapes) >= 3
	r.Sample = map[string]interface{}{"mode": "differential", "requests": len(shapes), "first_ops": firstN(shapes, 10)}
	for wj := 1; wj < len(worlds); wj++ {
		n := len(traces[0])
		if len(traces[wj]) < n {
			n = len(traces[wj])
		}
		kind, what := "stores-differ", "memory and file store answer"
		if worlds[wj] == "mem-http" {
			kind, what = "transport-differs", "the recorder stub and a real HTTP server (same store) answer"
		}
		for i := 0; i < n; i++ {
			if traces[0][i] != traces[wj][i] {
				r.Fail(kind, "", "%s differently at response %d of the same program:\n  %s:  %s\n  %s: %s\n  ops: %v", what, i, worlds[0], traces[0][i], worlds[wj], traces[wj][i], firstN(shapes, i/2+1))
				return
			}
			if strings.HasPrefix(traces[0][i], "list") {
				r.Probe("c09.differential_listing")
			}
		}
		if len(traces[0]) != len(traces[wj]) {
			r.Fail(kind, "", "traces have different lengths: %d vs %d", len(traces[0]), len(traces[wj]))
			return
		}
	}
	r.Probe("c09.differential_equal")
}
