package main

import (
	"context"
	"io"

	btapb "cloud.google.com/go/bigtable/admin/apiv2/adminpb"
	btpb "cloud.google.com/go/bigtable/apiv2/bigtablepb"
	"google.golang.org/grpc"
	"google.golang.org/grpc/credentials/insecure"
	"google.golang.org/protobuf/types/known/emptypb"
)

// Transport fidelity for Bigtable: a world whose requests travel over a real gRPC connection on a
// loopback socket to a server started with bttest.NewServerWithOptions, instead of being direct
// calls of the handlers. The adaptors below give the gRPC *client* stubs the shape of the server
// interfaces, so every world method works unchanged on top of them.

const engLdbMemGRPC = "leveldb-mem+grpc"

type remoteData struct {
	btpb.UnimplementedBigtableServer
	c btpb.BigtableClient
}

func (r *remoteData) MutateRow(ctx context.Context, req *btpb.MutateRowRequest) (*btpb.MutateRowResponse, error) {
	return r.c.MutateRow(ctx, req)
}
func (r *remoteData) CheckAndMutateRow(ctx context.Context, req *btpb.CheckAndMutateRowRequest) (*btpb.CheckAndMutateRowResponse, error) {
	return r.c.CheckAndMutateRow(ctx, req)
}
func (r *remoteData) ReadModifyWriteRow(ctx context.Context, req *btpb.ReadModifyWriteRowRequest) (*btpb.ReadModifyWriteRowResponse, error) {
	return r.c.ReadModifyWriteRow(ctx, req)
}
func (r *remoteData) ReadRows(req *btpb.ReadRowsRequest, st btpb.Bigtable_ReadRowsServer) error {
	cs, err := r.c.ReadRows(st.Context(), req)
	if err != nil {
		return err
	}
	for {
		m, err := cs.Recv()
		if err == io.EOF {
			return nil
		}
		if err != nil {
			return err
		}
		if err := st.Send(m); err != nil {
			return err
		}
	}
}
func (r *remoteData) MutateRows(req *btpb.MutateRowsRequest, st btpb.Bigtable_MutateRowsServer) error {
	cs, err := r.c.MutateRows(st.Context(), req)
	if err != nil {
		return err
	}
	for {
		m, err := cs.Recv()
		if err == io.EOF {
			return nil
		}
		if err != nil {
			return err
		}
		if err := st.Send(m); err != nil {
			return err
		}
	}
}
func (r *remoteData) SampleRowKeys(req *btpb.SampleRowKeysRequest, st btpb.Bigtable_SampleRowKeysServer) error {
	cs, err := r.c.SampleRowKeys(st.Context(), req)
	if err != nil {
		return err
	}
	for {
		m, err := cs.Recv()
		if err == io.EOF {
			return nil
		}
		if err != nil {
			return err
		}
		if err := st.Send(m); err != nil {
			return err
		}
	}
}

type remoteAdmin struct {
	btapb.UnimplementedBigtableTableAdminServer
	c btapb.BigtableTableAdminClient
}

func (r *remoteAdmin) CreateTable(ctx context.Context, req *btapb.CreateTableRequest) (*btapb.Table, error) {
	return r.c.CreateTable(ctx, req)
}
func (r *remoteAdmin) GetTable(ctx context.Context, req *btapb.GetTableRequest) (*btapb.Table, error) {
	return r.c.GetTable(ctx, req)
}
func (r *remoteAdmin) ListTables(ctx context.Context, req *btapb.ListTablesRequest) (*btapb.ListTablesResponse, error) {
	return r.c.ListTables(ctx, req)
}
func (r *remoteAdmin) DeleteTable(ctx context.Context, req *btapb.DeleteTableRequest) (*emptypb.Empty, error) {
	return r.c.DeleteTable(ctx, req)
}
func (r *remoteAdmin) ModifyColumnFamilies(ctx context.Context, req *btapb.ModifyColumnFamiliesRequest) (*btapb.Table, error) {
	return r.c.ModifyColumnFamilies(ctx, req)
}
func (r *remoteAdmin) DropRowRange(ctx context.Context, req *btapb.DropRowRangeRequest) (*emptypb.Empty, error) {
	return r.c.DropRowRange(ctx, req)
}

func dialLoopback(addr string) *grpc.ClientConn {
	conn, err := grpc.Dial(addr, grpc.WithTransportCredentials(insecure.NewCredentials()), grpc.WithBlock())
	if err != nil {
		harnessErr("grpc dial %s: %v", addr, err)
	}
	return conn
}
